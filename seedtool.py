#!/usr/bin/env python3
"""
Helper for the seeded changes under /verif/seeded (independently written breaking changes):

  seedtool.py verify <worktree> <seed dir>      confirm in a scratch worktree: patch applies, repository suite passes
                                                with it, demo fails with it and passes without it
  seedtool.py detect <patch.diff> <property> [check.py args]
                                                apply the patch to /repo, run the property's check (output to a scratch
                                                directory, not /verif/evidence), undo the patch straight afterwards
  seedtool.py detect-all [--reduced N] [--resume LOG] --tier quick
  seedtool.py benign-all --tier quick           regressions of the harness over /verif/seeded and /verif/benign, each
                                                change applied to a scratch copy of /repo/src (removed afterwards)
"""
import glob
import json
import os
import shutil
import subprocess
import sys
import tempfile

PY = "/venv/bin/python"


def sh(cmd, cwd=None, env=None, timeout=3600):
    proc = subprocess.run(cmd, cwd=cwd, env=env, capture_output=True, text=True, timeout=timeout, check=False)
    return proc.returncode, proc.stdout + proc.stderr


def demo_command(seed_dir):
    tests = glob.glob(os.path.join(seed_dir, "test_*.py"))
    if tests:
        return [PY, "-m", "pytest", "-q", "-p", "no:cacheprovider", "--timeout=600", tests[0]]
    return [PY, os.path.join(seed_dir, "demo.py")]


def verify(worktree, seed_dir):
    env = dict(os.environ, PYTHONPATH=os.path.join(worktree, "src"))
    patch = os.path.join(seed_dir, "patch.diff")
    report = {}
    sh(["git", "checkout", "--", "src"], cwd=worktree)
    code, out = sh(demo_command(seed_dir), cwd=worktree, env=env)
    report["demo_without_change"] = code
    code, out = sh(["git", "apply", patch], cwd=worktree)
    report["patch_applies"] = code == 0
    if code != 0:
        print(out)
    code, out = sh([PY, "-m", "pytest", "-q", "-p", "no:cacheprovider", "--timeout=900"], cwd=worktree, env=env)
    summary = [line for line in out.splitlines() if " passed" in line or " failed" in line or " error" in line]
    report["suite_with_change"] = summary[-1].strip() if summary else f"exit {code}"
    code, out = sh(demo_command(seed_dir), cwd=worktree, env=env)
    report["demo_with_change"] = code
    report["demo_output_tail"] = out.strip().splitlines()[-3:]
    sh(["git", "checkout", "--", "src"], cwd=worktree)
    report["confirmed"] = (
        report["patch_applies"] and report["demo_without_change"] == 0 and report["demo_with_change"] != 0
        and " passed" in report["suite_with_change"] and "failed" not in report["suite_with_change"]
    )
    print(json.dumps(report, indent=1))
    return 0 if report["confirmed"] else 1


def detect(patch, prop, extra):
    out_dir = tempfile.mkdtemp(prefix="seed-detect-")
    code, out = sh(["git", "-C", "/repo", "status", "--porcelain"])
    if out.strip():
        print("refusing: /repo has uncommitted changes\n" + out)
        return 2
    code, out = sh(["git", "-C", "/repo", "apply", os.path.abspath(patch)])
    if code != 0:
        print("patch does not apply to /repo: " + out)
        return 2
    try:
        env = dict(os.environ, VERIF_OUT=out_dir)
        code, out = sh([PY, "/verif/check.py", prop] + extra, env=env, timeout=7200)
        lines = [line for line in out.splitlines() if "chunks after" not in line and "shrunk to" not in line]
        print("\n".join(line[:400] for line in lines[-25:]))
        print(f"check exit code: {code}  -> {'DETECTED' if code == 1 and 'VIOLATION property=' + prop in out else 'MISSED'}")
        replays = glob.glob(os.path.join(out_dir, "replays", "*.json"))
        if replays:
            print("replay kept at", replays[0] if "--keep" in sys.argv else "(scratch, removed)")
        return code
    finally:
        sh(["git", "-C", "/repo", "checkout", "--", "."])
        shutil.rmtree(out_dir, ignore_errors=True)


def scratch_copy(patch):
    """a copy of /repo's working tree source with the patch applied, outside /repo and /verif; None if it does not apply"""
    root = tempfile.mkdtemp(prefix="seed-copy-")
    shutil.copytree("/repo/src", os.path.join(root, "src"))
    if patch and os.path.exists(patch) and os.path.getsize(patch):
        code, _ = sh(["patch", "-s", "-p1", "-i", os.path.abspath(patch)], cwd=root)
        if code != 0:
            shutil.rmtree(root, ignore_errors=True)
            return None
    return root


def pop_option(extra, name, with_value=True):
    if name not in extra:
        return None
    index = extra.index(name)
    value = extra[index + 1] if with_value else True
    del extra[index:index + (2 if with_value else 1)]
    return value


def detect_all(extra):
    """
    regression run: every seeded change against its check; results to selftest_results/seeded.json
      --reduced N      first try with --runs N (the first N seeds of the tier: a detection there is a detection of the
                       tier); only what that misses is run with the full budget
      --resume LOG     keep the entries of an earlier, interrupted run (its JSON lines) that were run at the full budget
      --only ID,ID     run these seeded changes only and merge their entries into selftest_results/seeded.json
    Every change is applied to a scratch copy of /repo/src (AHBICHT_SRC), never to /repo itself.
    """
    extra = list(extra)
    reduced = pop_option(extra, "--reduced")
    resume = pop_option(extra, "--resume")
    resume_props = (pop_option(extra, "--resume-props") or "C10,C11,C12,C13,C15,C16").split(",")
    only = pop_option(extra, "--only")
    only = only.split(",") if only else None
    earlier = {}
    if resume:
        for line in open(resume, encoding="utf-8"):
            try:
                entry = json.loads(line)
            except ValueError:
                continue
            if entry.get("status") == "detected" and entry.get("property") in resume_props:
                earlier[entry["id"]] = entry
    results = []
    for seed_dir in sorted(glob.glob("/verif/seeded/*/")):
        meta = json.load(open(os.path.join(seed_dir, "meta.json"), encoding="utf-8"))
        prop = meta["property"][:3]
        if only is not None and meta["id"] not in only:
            continue
        if (meta.get("detection") or {}).get("tier") == "not-claimed":
            results.append({"id": meta["id"], "property": prop, "status": "not-claimed (outside the statement)"})
            print(json.dumps(results[-1]), flush=True)
            continue
        if (meta.get("detection") or {}).get("tier") == "thorough" and "thorough" not in extra:
            results.append({"id": meta["id"], "property": prop, "status": "thorough-tier-only (not run)"})
            print(json.dumps(results[-1]), flush=True)
            continue
        if meta["id"] in earlier:
            results.append(earlier[meta["id"]])
            print(json.dumps(results[-1]), flush=True)
            continue
        root = scratch_copy(os.path.join(seed_dir, "patch.diff"))
        if root is None:
            results.append({"id": meta["id"], "property": prop, "status": "PATCH-DOES-NOT-APPLY"})
            print(json.dumps(results[-1]), flush=True)
            continue
        try:
            env = dict(os.environ, AHBICHT_SRC=os.path.join(root, "src"), VERIF_OUT=os.path.join(root, "out"))
            attempts = ([["--runs", reduced]] if reduced else []) + [[]]
            for attempt in attempts:
                code, out = sh([PY, "/verif/check.py", prop] + extra + attempt, env=env, timeout=7200)
                detected = code == 1 and f"VIOLATION property={prop}" in out
                if detected:
                    break
            # the minimised replay files describe the change, not the harness: on the tree as it is they are quiet
            replays = sorted(glob.glob(os.path.join(root, "out", "replays", "*.json")))
            quiet = 0
            for replay in replays:
                replay_code, _ = sh([PY, "/verif/check.py", "--replay", replay],
                                    env=dict(os.environ, AHBICHT_SRC="/repo/src", VERIF_OUT=os.path.join(root, "out2")),
                                    timeout=900)
                quiet += replay_code == 0
        finally:
            shutil.rmtree(root, ignore_errors=True)
        clauses = sorted({line.split("clause=")[1].split(" ")[0] for line in out.splitlines()
                          if line.strip().startswith("clause=")})
        summary = [line for line in out.splitlines() if line.startswith("property=")]
        failing = summary[-1].split("failing=")[1].split(" ")[0] if summary else "?"
        runs = summary[-1].split("runs=")[1].split(" ")[0] if summary else "?"
        entry = {"id": meta["id"], "property": prop, "status": "detected" if detected else "MISSED", "exit": code,
                 "failing_runs": failing, "of_runs": runs, "clauses": clauses,
                 "unstable_replay": "UNSTABLE-REPLAY" in out, "harness_error": "HARNESS-ERROR" in out,
                 "replays_quiet_on_the_unchanged_tree": f"{quiet}/{len(replays)}"}
        if detected and quiet != len(replays):
            entry["status"] = "REPLAY-FAILS-ON-UNCHANGED-TREE"
        print(json.dumps(entry), flush=True)
        results.append(entry)
    os.makedirs("/verif/selftest_results", exist_ok=True)
    stored = results
    if only is not None and os.path.exists("/verif/selftest_results/seeded.json"):
        ran = {r["id"] for r in results}
        stored = [r for r in json.load(open("/verif/selftest_results/seeded.json", encoding="utf-8"))
                  if r["id"] not in ran] + results
        stored.sort(key=lambda r: r["id"])
    with open("/verif/selftest_results/seeded.json", "w", encoding="utf-8") as stream:
        json.dump(stored, stream, indent=1)
    missed = [r for r in results if r["status"] not in ("detected", "thorough-tier-only (not run)",
                                                        "not-claimed (outside the statement)")]
    print(f"SEEDED: {len(results) - len(missed)}/{len(results)} detected or thorough-only")
    return 0 if not missed else 1


def benign_all(extra):
    """property-preserving changes (/verif/benign/*): the named check must exit 0 with them applied"""
    results = []
    for benign_dir in sorted(glob.glob("/verif/benign/*/")):
        meta = json.load(open(os.path.join(benign_dir, "meta.json"), encoding="utf-8"))
        prop = meta["property_check_that_alarms"][:3]
        root = scratch_copy(os.path.join(benign_dir, "patch.diff"))  # (no patch: a false alarm on the unchanged library)
        if root is None:
            results.append({"id": os.path.basename(benign_dir.rstrip("/")), "status": "PATCH-DOES-NOT-APPLY"})
            print(json.dumps(results[-1]))
            continue
        try:
            env = dict(os.environ, AHBICHT_SRC=os.path.join(root, "src"), VERIF_OUT=os.path.join(root, "out"),
                       **(meta.get("env") or {}))
            code, out = sh([PY, "/verif/check.py", prop] + extra, env=env, timeout=7200)
            for replay in meta.get("replays") or []:
                replay_code, replay_out = sh([PY, "/verif/check.py", "--replay", os.path.join(benign_dir, replay)],
                                             env=env, timeout=600)
                code, out = max(code, replay_code), out + replay_out
        finally:
            shutil.rmtree(root, ignore_errors=True)
        entry = {"id": os.path.basename(benign_dir.rstrip("/")), "property": prop, "exit": code,
                 "status": "quiet" if code == 0 and "VIOLATION" not in out else "FALSE-ALARM"}
        print(json.dumps(entry), flush=True)
        results.append(entry)
    os.makedirs("/verif/selftest_results", exist_ok=True)
    with open("/verif/selftest_results/benign.json", "w", encoding="utf-8") as stream:
        json.dump(results, stream, indent=1)
    bad = [r for r in results if r["status"] != "quiet"]
    print(f"BENIGN: {len(results) - len(bad)}/{len(results)} quiet")
    return 0 if not bad else 1


if __name__ == "__main__":
    if sys.argv[1] == "benign-all":
        sys.exit(benign_all(sys.argv[2:]))
    if sys.argv[1] == "detect-all":
        sys.exit(detect_all(sys.argv[2:]))
    if sys.argv[1] == "verify":
        sys.exit(verify(sys.argv[2], sys.argv[3]))
    if sys.argv[1] == "detect":
        sys.exit(detect(sys.argv[2], sys.argv[3], [a for a in sys.argv[4:] if a != "--keep"]))
