#!/venv/bin/python
"""setup_cmd: nothing to build (python); verifies that the checks will run the repository's current working tree"""
import os
import sys

sys.path.insert(0, os.path.dirname(os.path.abspath(__file__)))
from sim import env  # noqa: E402

import ahbicht  # noqa: E402
import inject  # noqa: E402,F401
import lark  # noqa: E402
import maus  # noqa: E402,F401

print(f"ahbicht from {os.path.dirname(ahbicht.__file__)}, lark {lark.__version__}, python {sys.version.split()[0]}")
assert os.path.realpath(ahbicht.__file__).startswith(os.path.realpath(env.REPO_SRC))
print("setup ok")
