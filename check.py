#!/venv/bin/python
"""
Entry point of every registered check.

    check.py <property id> [--tier quick|thorough] [--runs N] [--workers N] [--seed S]
    check.py --replay <file> [--quiet]

exit 0: the property held on everything explored (known findings are printed as KNOWN-FINDING lines)
exit 1: a violation was found, minimised, written to /verif/replays and reproduced in a fresh interpreter;
        stdout carries "VIOLATION property=<id> replay=<path>"
exit 2: HARNESS-ERROR - the machinery itself failed (never reported as success, never as a violation)
"""

import argparse
import json
import os
import sys
import time

HERE = os.path.dirname(os.path.abspath(__file__))
if HERE not in sys.path:
    sys.path.insert(0, HERE)
OUT = os.environ.get("VERIF_OUT", HERE)  # self-tests against scratch copies write elsewhere

if os.environ.get("PYTHONHASHSEED") is None:
    # a fixed hash seed for the batch (replays are confirmed under a different one)
    os.environ["PYTHONHASHSEED"] = "0"
    os.execv(sys.executable, [sys.executable] + sys.argv)

from sim import runner  # noqa: E402
from sim.canon import digest  # noqa: E402

BUDGETS = {
    # property: (quick runs, thorough runs)
    "C10": (12000, 240000),
    "C11": (2500, 50000),
    "C12": (10000, 200000),
    "C13": (6000, 120000),
    "C15": (2500, 50000),
    "C16": (6000, 120000),
}
COMPONENTS = {
    "real": [
        "every line under /repo/src/ahbicht (current working tree)",
        "lark 1.2.2 (Earley parser, transformers)",
        "inject 5.2.1",
        "marshmallow / attrs / maus models",
        "CPython 3.12 asyncio Task / Future / gather / contextvars, BaseEventLoop._run_once",
        "functools.lru_cache",
    ],
    "stub": [
        "event loop clock and selector (virtual time, sim/loop.py)",
        "user supplied peers: requirement-constraint evaluator, format-constraint evaluator, hints provider, "
        "package resolver (sim/world.py; the CER flavour only adds a latency in front of the shipped classes)",
        "evaluatable-data provider (context-local storage)",
        "client requests",
    ],
}


def load_known_findings(prop_id):
    path = os.environ.get("VERIF_KNOWN_FINDINGS", os.path.join(HERE, "known_findings.json"))  # (override: self-test)
    if not os.path.exists(path):
        return []
    with open(path, encoding="utf-8") as stream:
        entries = json.load(stream).get("findings", [])
    return [e for e in entries if e.get("property") == prop_id and e.get("status") == "open"]


def matches_known(verdict, known):
    """
    an open finding is identified by the clause that fails AND by the specific input / call site that fails
    (every string of entry["detail_contains"] must occur in the failure's detail) - a different violation of the same
    clause is still reported. An entry without detail_contains matches nothing.
    """
    for entry in known:
        needles = entry.get("detail_contains") or []
        if (
            entry.get("fingerprint")
            and entry["fingerprint"] == verdict.get("fingerprint")
            and needles
            and all(needle in (verdict.get("detail") or "") for needle in needles)
        ):
            return entry
    return None


def write_evidence(prop_id, tier, seed, level, verdicts, wall, violations, known_hits, module, extra=None):
    good = [v for v in verdicts if "harness_error" not in v]
    nontrivial = {v["log_digest"] for v in good if v.get("nontrivial")}
    fault_counts, probes = {}, {}
    for verdict in good:
        for kind, count in (verdict.get("faults") or {}).items():
            fault_counts[kind] = fault_counts.get(kind, 0) + count
        for name, count in (verdict.get("probes") or {}).items():
            probes[name] = probes.get(name, 0) + count
    samples = []
    for wanted in (False, True, True):
        for verdict in good:
            if bool(verdict.get("nontrivial")) == wanted and verdict.get("summary") and verdict["summary"] not in samples:
                samples.append(verdict["summary"])
                break
    if not samples:
        samples = [v.get("summary") or {"seed": v["seed"]} for v in good[:2]]
    observed = sum(v.get("observed", 0) for v in good)
    coverage = {
        "evaluations": len(good),
        "distinct_nontrivial": len(nontrivial),
        "rule": module.RULE,
        "samples": samples,
        "runs_per_hour": int(len(good) / wall * 3600) if wall > 0 else 0,
        "seeds": [verdicts[0]["seed"], verdicts[-1]["seed"]] if verdicts else [],
        "simulated_time_s": sum(v.get("sim_time", 0.0) for v in good),
        "loop_steps": sum(v.get("steps", 0) for v in good),
        "peer_calls": sum(v.get("peer_calls", 0) for v in good),
        "yielding_peer_calls": sum(v.get("yielding_calls", 0) for v in good),
        "out_of_order_completions": sum(v.get("inversions", 0) for v in good),
        "distinct_completion_orders": len({v.get("order_sig") for v in good if v.get("order_sig")}),
        "distinct_event_logs": len({v.get("log_digest") for v in good}),
        "fault_counts": fault_counts,
        "reach_probes": probes,
        "observed_requests_completed_ratio": (
            round(sum(v.get("completed", 0) for v in good) / observed, 4) if observed else None
        ),
        "components": COMPONENTS,
        "harness_errors": len(verdicts) - len(good),
        "known_findings": known_hits,
    }
    if extra:
        coverage.update(extra)
    evidence = {
        "property_id": prop_id,
        "tier": tier,
        "seed": seed,
        "level": level,
        "coverage": coverage,
        "assumptions": [
            "sampling, not proof: a clean batch is evidence only for the schedules, inputs and faults drawn",
            "asyncio's documented FIFO order of ready callbacks is kept (not shuffled)",
            "the peers are stubs; what they return is a pure function of (request data, kind, key[, text])",
        ],
        "wall_s": round(wall, 2),
        "violations": violations,
    }
    os.makedirs(os.path.join(OUT, "evidence"), exist_ok=True)
    path = os.path.join(OUT, "evidence", f"{prop_id}.json")
    with open(path + ".tmp", "w", encoding="utf-8") as stream:
        json.dump(evidence, stream, indent=1, ensure_ascii=False)
    os.replace(path + ".tmp", path)
    return path


def do_replay(path, quiet):
    with open(path, encoding="utf-8") as stream:
        scenario = json.load(stream)
    prop_id = scenario["property"]
    verdict = runner.run_scenario(prop_id, scenario, with_log=not quiet)
    if "harness_error" in verdict:
        print(f"HARNESS-ERROR property={prop_id} {verdict['harness_error']}")
        return 2
    if not quiet:
        print(f"seed={scenario.get('seed')} property={prop_id} profile={scenario.get('profile')}")
        try:
            print("scenario: " + json.dumps(runner.prop_module(prop_id).summarise(scenario), ensure_ascii=False)[:3000])
        except Exception:  # pylint:disable=broad-except
            pass
        print("event log (loop step, virtual time [s], event, request, peer kind, key, occurrence, latency decision):")
        for entry in verdict.get("log", []):
            print("  " + " ".join(str(x) for x in entry))
        print(f"log_digest={verdict.get('log_digest')} sim_time={verdict.get('sim_time')} steps={verdict.get('steps')}")
    if verdict.get("ok"):
        print(f"REPLAY-OK property={prop_id} (no violation)")
        return 0
    print(f"clause={verdict.get('clause')}")
    print(f"detail={verdict.get('detail')}")
    print(f"VIOLATION property={prop_id} replay={path}")
    return 1


def main():
    parser = argparse.ArgumentParser()
    parser.add_argument("prop", nargs="?")
    parser.add_argument("--tier", default=os.environ.get("VERIF_TIER", "quick"))
    parser.add_argument("--runs", type=int)
    parser.add_argument("--workers", type=int, default=int(os.environ.get("VERIF_WORKERS", os.cpu_count() or 4)))
    parser.add_argument("--seed", type=int, default=int(os.environ.get("VERIF_SEED", "0") or 0))
    parser.add_argument("--replay")
    parser.add_argument("--quiet", action="store_true")
    parser.add_argument("--no-minimise", action="store_true")
    args = parser.parse_args()
    if args.replay:
        return do_replay(args.replay, args.quiet)
    prop_id = args.prop
    if prop_id not in runner.PROPS:
        print(f"unknown property {prop_id}")
        return 2
    tier = args.tier if args.tier in ("quick", "thorough") else "quick"
    module = runner.prop_module(prop_id)
    runs = args.runs or BUDGETS[prop_id][0 if tier == "quick" else 1]
    base = args.seed * 1_000_000
    seeds = [base + i for i in range(runs)]
    print(f"VERIF_SEED={args.seed} property={prop_id} tier={tier} runs={runs} workers={args.workers}", flush=True)
    started = time.monotonic()
    verdicts = runner.run_batch(
        prop_id,
        seeds,
        tier,
        args.workers,
        progress=lambda d, n, t: print(f"  {d}/{n} chunks after {t:.0f}s", flush=True),
    )
    wall = time.monotonic() - started
    harness = [v for v in verdicts if "harness_error" in v]
    failing = [v for v in verdicts if not v.get("ok") and "harness_error" not in v]
    known = load_known_findings(prop_id)
    known_hits, fresh = {}, []
    for verdict in failing:
        entry = matches_known(verdict, known)
        if entry:
            known_hits[entry["fingerprint"]] = known_hits.get(entry["fingerprint"], 0) + 1
        else:
            fresh.append(verdict)
    for entry in known:
        if entry["fingerprint"] in known_hits:
            print(f"KNOWN-FINDING: property={prop_id} {entry['what']} ({known_hits[entry['fingerprint']]} runs)")
    exit_code = 0
    reported = 0
    if fresh:
        by_fingerprint = {}
        for verdict in fresh:
            by_fingerprint.setdefault(verdict.get("fingerprint"), []).append(verdict)
        print(f"{len(fresh)} failing runs, {len(by_fingerprint)} distinct fingerprints", flush=True)
        for fingerprint, group in list(by_fingerprint.items())[:3]:
            # candidates to write out, best first: the minimised first failure, then un-minimised failures
            # prefer a failing run that does not depend on the heap layout of the process (see runner.pristine)
            first = next(
                (v for v in group[:12] if runner.robustly_fails(prop_id, v["scenario"], v["clause"])), group[0]
            )
            print(f"candidate seed={first['seed']} clause={first['clause']}: {first['detail'][:300]}", flush=True)
            candidates = []
            if not args.no_minimise:
                small, _, tried = runner.minimise(
                    prop_id, first["scenario"], first, budget_s=60 if tier == "quick" else 180, log=print
                )
                print(f"  minimised: size {module.size(first['scenario'])} -> {module.size(small)} ({tried} tried)")
                candidates.append((first, small))
            candidates.extend((verdict, verdict["scenario"]) for verdict in group[:6])
            os.makedirs(os.path.join(OUT, "replays"), exist_ok=True)
            confirmed, path, output = False, None, ""
            for verdict, scenario in candidates:
                path = os.path.join(OUT, "replays", f"{prop_id}-{verdict['seed']}.json")
                scenario = dict(scenario, property=prop_id, clause=verdict["clause"], fingerprint=fingerprint)
                with open(path, "w", encoding="utf-8") as stream:
                    json.dump(scenario, stream, indent=1, ensure_ascii=False)
                confirmed, output = runner.confirm_in_fresh_interpreter(path, prop_id)
                if confirmed:
                    break
                print(f"  {path} did not reproduce in fresh interpreters, trying the next candidate", flush=True)
            if confirmed:
                print(f"VIOLATION property={prop_id} replay={path}")
                print(f"  clause={first['clause']}")
            else:
                # seen in the batch (every failing run is listed in the evidence) but no replay file reproduces in a
                # fresh interpreter: the failure depends on something neither the scenario nor the simulator owns.
                # Still a violation of the property on this tree - reported, and flagged as unstable.
                print(f"VIOLATION property={prop_id} replay={path}")
                print(f"  clause={first['clause']} UNSTABLE-REPLAY: failed in {len(group)} runs of the batch, "
                      f"but the replay file does not fail in every fresh interpreter")
                print(output[-600:])
            reported += 1
            exit_code = 1
    if harness:
        print(f"HARNESS-ERROR property={prop_id} {len(harness)} runs failed in the machinery, first: "
              f"{harness[0]['harness_error'][-1500:]}")
        if exit_code == 0:
            exit_code = 2
    path = write_evidence(
        prop_id, tier, args.seed, module.LEVEL, verdicts, wall, len(fresh), known_hits, module,
        extra=getattr(module, "extra_evidence", lambda v: None)(verdicts),
    )
    good = len(verdicts) - len(harness)
    print(
        f"property={prop_id} runs={good} failing={len(fresh)} known={sum(known_hits.values())} "
        f"wall={wall:.1f}s ({int(good / wall * 3600) if wall else 0} runs/h) evidence={path}"
    )
    return exit_code


if __name__ == "__main__":
    try:
        CODE = main()
    except SystemExit:
        raise
    except BaseException as error:  # pylint:disable=broad-except
        # the machinery itself failed (e.g. /repo/src does not import): never exit 0, never a VIOLATION line
        import traceback

        traceback.print_exc()
        print(f"HARNESS-ERROR {type(error).__name__}: {error}")
        CODE = 2
    sys.exit(CODE)
