"""
Sensitivity mutants for `selftest.py mutants`: small textual changes to a scratch copy of /repo/src, each of which
breaks one claimed property. (file relative to src/ahbicht, old text, new text). They are the harness author's own
mutants; the independently written seeded changes live under /verif/seeded.
"""

_DONE_CALLBACK = '''        results = []
        futures = [asyncio.ensure_future(t) for t in tasks]
        for future in futures:
            future.add_done_callback(lambda f: results.append(f.result()))
        await asyncio.gather(*futures)
'''

MUTANTS = [
    # ------------------------------------------------------------------------------------------------ C12
    {
        "name": "c12-rc-results-in-completion-order",
        "property": "C12",
        "file": "content_evaluation/rc_evaluators.py",
        "old": "        results = await asyncio.gather(*tasks)\n",
        "new": _DONE_CALLBACK,
    },
    {
        "name": "c12-fc-results-in-completion-order",
        "property": "C12",
        "file": "content_evaluation/fc_evaluators.py",
        "old": "        results: List[EvaluatedFormatConstraint] = await asyncio.gather(*tasks)\n",
        "new": _DONE_CALLBACK,
    },
    {
        "name": "c12-hints-in-completion-order",
        "property": "C12",
        "file": "expressions/hints_provider.py",
        "old": "            results = await asyncio.gather(*tasks)\n",
        "new": _DONE_CALLBACK.replace("        ", "            ", 1).replace("\n        ", "\n            "),
    },
    {
        "name": "c12-gather-if-necessary-awaited-first",
        "property": "C12",
        "file": "utility_functions.py",
        "old": "    result: List[Result] = []\n    awaited_results_index = 0\n",
        "new": "    if awaited_results and len(awaited_results) < len(results_and_awaitable_results):\n"
        "        return list(awaited_results) + [x for x in results_and_awaitable_results if not inspect.isawaitable(x)]\n"
        "    result: List[Result] = []\n    awaited_results_index = 0\n",
    },
    {
        "name": "c12-evaluatable-data-memoised-in-module-global",
        "property": "C12",
        "file": "condition_node_builder.py",
        "old": "        rc_evaluator = self.token_logic_provider.get_rc_evaluator(\n",
        "new": "        global _MEMO  # pylint:disable=global-statement\n"
        "        try:\n            evaluatable_data = _MEMO\n        except NameError:\n"
        "            _MEMO = evaluatable_data\n"
        "        rc_evaluator = self.token_logic_provider.get_rc_evaluator(\n",
    },
    {
        "name": "c12-first-completed-fulfilled-part-wins",
        "property": "C12",
        "file": "expressions/ahb_expression_evaluation.py",
        "old": "        results = await gather_if_necessary(list_of_single_requirement_indicator_expressions)\n",
        "new": "        import asyncio, inspect\n"
        "        _order = []\n"
        "        async def _track(aw):\n"
        "            res = await aw\n"
        "            _order.append(res)\n"
        "            return res\n"
        "        results = await gather_if_necessary([_track(x) if inspect.isawaitable(x) else x for x in "
        "list_of_single_requirement_indicator_expressions])\n"
        "        for res in _order:\n"
        "            if res.requirement_constraint_evaluation_result.requirement_constraints_fulfilled:\n"
        "                if len(list_of_single_requirement_indicator_expressions) > 1:\n"
        "                    res.requirement_constraint_evaluation_result.requirement_is_conditional = True\n"
        "                return res\n",
    },
    {
        "name": "c12-validity-setter-called-outside-the-evaluating-task",
        "property": "C12",
        "file": "content_evaluation/__init__.py",
        "old": "        async def evaluate_with_cer(cer: ContentEvaluationResult):\n"
        "            content_evaluation_result_setter(cer)\n            try:\n",
        "new": "        content_evaluation_result_setter(content_evaluation_result)\n\n"
        "        async def evaluate_with_cer(cer: ContentEvaluationResult):\n            try:\n",
    },
    # ------------------------------------------------------------------------------------------------ C10
    {
        "name": "c10-module-level-cache-of-resolved-packages",
        "property": "C10",
        "file": "expressions/expression_resolver.py",
        "old": "        resolved_package = await resolver.get_condition_expression(package_key_token.value)\n",
        "new": "        if package_key_token.value in _PACKAGE_CACHE:\n"
        "            resolved_package = _PACKAGE_CACHE[package_key_token.value]\n"
        "        else:\n"
        "            resolved_package = await resolver.get_condition_expression(package_key_token.value)\n"
        "            _PACKAGE_CACHE[package_key_token.value] = resolved_package\n",
        "also": [
            {
                "old": "async def parse_expression_including_unresolved_subexpressions(\n",
                "new": "_PACKAGE_CACHE = {}\n\n\nasync def parse_expression_including_unresolved_subexpressions(\n",
            }
        ],
    },
    {
        "name": "c10-placeholders-written-back-in-completion-order",
        "property": "C10",
        "file": "expressions/expression_resolver.py",
        "old": "    sub_results = await asyncio.gather(*result.scan_values(asyncio.iscoroutine))\n",
        "new": "    sub_results = []\n"
        "    futures = [asyncio.ensure_future(c) for c in result.scan_values(asyncio.iscoroutine)]\n"
        "    for future in futures:\n"
        "        future.add_done_callback(lambda f: sub_results.append(f.result()))\n"
        "    await asyncio.gather(*futures)\n",
    },
    {
        "name": "c10-unknown-package-left-in-place",
        "property": "C10",
        "file": "expressions/expression_resolver.py",
        "old": "            raise NotImplementedError(f\"The package '{package_key_token.value}' could not be resolved by "
        "{resolver}\")\n",
        "new": "            return Tree(\"package\", [package_key_token])\n",
    },
    {
        "name": "c10-time-conditions-not-replaced-inside-packages",
        "property": "C10",
        "file": "expressions/expression_resolver.py",
        "old": "        tree_result = parse_condition_expression_to_tree(resolved_package.package_expression)\n"
        "        return tree_result\n",
        "new": "        tree_result = parse_condition_expression_to_tree(resolved_package.package_expression)\n"
        "        for sub in tree_result.iter_subtrees():\n"
        "            if sub.data == \"time_condition\":\n"
        "                sub.data = \"time_condition_done\"\n"
        "        return tree_result\n",
    },
    {
        "name": "c10-second-level-packages-expanded-too",
        "property": "C10",
        "file": "expressions/expression_resolver.py",
        "old": "    result = await _replace_sub_coroutines_with_awaited_results(result)\n    return result\n",
        "new": "    result = await _replace_sub_coroutines_with_awaited_results(result)\n"
        "    if list(result.find_data(\"package\")):\n"
        "        try:\n"
        "            result = PackageExpansionTransformer().transform(result)\n"
        "            result = await _replace_sub_coroutines_with_awaited_results(result)\n"
        "        except NotImplementedError:\n"
        "            pass\n"
        "    return result\n",
    },
    # ------------------------------------------------------------------------------------------------ C11
    {
        "name": "c11-shallow-copy-again",
        "property": "C11",
        "file": "utility_functions.py",
        "old": "        return copy.deepcopy(tree_result)\n",
        "new": "        return tree_result.copy()\n",
    },
    {
        "name": "c11-copy-root-and-first-level-only",
        "property": "C11",
        "file": "utility_functions.py",
        "old": "        return copy.deepcopy(tree_result)\n",
        "new": "        return Tree(tree_result.data, [c.copy() if isinstance(c, Tree) else c for c in "
        "tree_result.children])\n",
    },
    {
        "name": "c11-cached-instance-returned-for-long-strings",
        "property": "C11",
        "file": "utility_functions.py",
        "old": "        return copy.deepcopy(tree_result)\n",
        "new": "        return copy.deepcopy(tree_result) if len(args[0]) < 12 else tree_result\n",
    },
    # ------------------------------------------------------------------------------------------------ C13
    {
        "name": "c13-segments-gathered-before-sub-groups",
        "property": "C13",
        "file": "validation/validation.py",
        "old": "        validation_results_of_children: List[List[ValidationResultInContext]] = await asyncio.gather(*tasks)\n",
        "new": "        tasks = tasks[len(segment_group.segment_groups or []):] + tasks[:len(segment_group.segment_groups "
        "or [])]\n"
        "        validation_results_of_children: List[List[ValidationResultInContext]] = await asyncio.gather(*tasks)\n",
    },
    {
        "name": "c13-children-in-completion-order",
        "property": "C13",
        "file": "validation/validation.py",
        "old": "        validation_results_of_children: List[List[ValidationResultInContext]] = await asyncio.gather(*tasks)\n",
        "new": "        validation_results_of_children = []\n"
        "        futures = [asyncio.ensure_future(t) for t in tasks]\n"
        "        for future in futures:\n"
        "            future.add_done_callback(lambda f: validation_results_of_children.append(f.result()))\n"
        "        await asyncio.gather(*futures)\n",
    },
    {
        "name": "c13-forbidden-segment-still-reports-elements",
        "property": "C13",
        "file": "validation/validation.py",
        "old": "    if segment_validation.requirement_validation is RequirementValidationValue.IS_FORBIDDEN:\n"
        "        validation_results_in_context_data_elements = []\n",
        "new": "    if segment_validation.requirement_validation is RequirementValidationValue.IS_FORBIDDEN and not "
        "segment.data_elements[1:]:\n"
        "        validation_results_in_context_data_elements = []\n",
    },
    {
        "name": "c13-optional-parent-required-child-is-required",
        "property": "C13",
        "file": "validation/validation.py",
        "old": "            return RequirementValidationValue.IS_OPTIONAL  # TODO: Let's discuss this "
        "(optional/optionalrequired?)\n",
        "new": "            return RequirementValidationValue.IS_REQUIRED\n",
    },
    {
        "name": "c13-soll-flag-not-forwarded-to-sub-groups",
        "property": "C13",
        "file": "validation/validation.py",
        "old": "                        child_segment_group,\n"
        "                        segment_group_validation.requirement_validation,\n"
        "                        soll_is_required,\n",
        "new": "                        child_segment_group,\n"
        "                        segment_group_validation.requirement_validation,\n",
    },
    {
        "name": "c13-soll-flag-not-forwarded-to-elements-again",
        "property": "C13",
        "file": "validation/validation.py",
        "old": "                validate_data_element(data_element, segment_validation.requirement_validation, "
        "soll_is_required)\n",
        "new": "                validate_data_element(data_element, segment_validation.requirement_validation)\n",
    },
    # ------------------------------------------------------------------------------------------------ C15
    {
        "name": "c15-text-in-module-attribute",
        "property": "C15",
        "file": "content_evaluation/fc_evaluators.py",
        "old": "text_to_be_evaluated_by_format_constraint: ContextVar[Optional[str]] = ContextVar(\n"
        "    \"text_to_be_evaluated_by_format_constraint\", default=None\n)",
        "new": "class _Var:\n    def __init__(self, name, default=None):\n        self._v = default\n\n"
        "    def get(self):\n        return self._v\n\n    def set(self, v):\n        self._v = v\n\n\n"
        "text_to_be_evaluated_by_format_constraint = _Var(\"text_to_be_evaluated_by_format_constraint\", "
        "default=None)",
    },
    {
        "name": "c15-text-set-when-tasks-are-created",
        "property": "C15",
        "file": "validation/validation.py",
        "old": "        for data_element in segment.data_elements:\n            tasks.append(\n",
        "new": "        for data_element in segment.data_elements:\n"
        "            if isinstance(data_element, DataElementFreeText):\n"
        "                fc_evaluators.text_to_be_evaluated_by_format_constraint.set(data_element.entered_input)\n"
        "            tasks.append(\n",
        "also": [
            {
                "old": "    fc_evaluators.text_to_be_evaluated_by_format_constraint.set(data_element.entered_input)\n"
                "    try:\n        evaluation_result = await evaluate_ahb_expression_tree(expression_tree)\n"
                "    except InvalidExpressionError as invalid_expr_error:\n        validation_logger.warning(\n"
                "            \"The expression '%s' @ '%s' is invalid. Returning IS_OPTIONAL\",",
                "new": "    try:\n        evaluation_result = await evaluate_ahb_expression_tree(expression_tree)\n"
                "    except InvalidExpressionError as invalid_expr_error:\n        validation_logger.warning(\n"
                "            \"The expression '%s' @ '%s' is invalid. Returning IS_OPTIONAL\",",
            }
        ],
    },
    {
        "name": "c15-format-constraint-results-cached-per-expression",
        "property": "C15",
        "file": "expressions/format_constraint_expression_evaluation.py",
        "old": "    error_message: Optional[str] = None\n    format_constraints_fulfilled: bool\n"
        "    if not format_constraints_expression:\n",
        "new": "    error_message: Optional[str] = None\n    format_constraints_fulfilled: bool\n"
        "    if format_constraints_expression in _RESULTS:\n        return _RESULTS[format_constraints_expression]\n"
        "    if not format_constraints_expression:\n",
        "also": [
            {
                "old": "    return FormatConstraintEvaluationResult(\n"
                "        format_constraints_fulfilled=format_constraints_fulfilled, error_message=error_message\n"
                "    )\n\n\n@inject.params",
                "new": "    _RESULTS[format_constraints_expression] = FormatConstraintEvaluationResult(\n"
                "        format_constraints_fulfilled=format_constraints_fulfilled, error_message=error_message\n"
                "    )\n    return _RESULTS[format_constraints_expression]\n\n\n_RESULTS = {}\n\n\n@inject.params",
            }
        ],
    },
    # ------------------------------------------------------------------------------------------------ C16
    {
        "name": "c16-first-fulfilled-part-returns-early",
        "property": "C16",
        "file": "expressions/ahb_expression_evaluation.py",
        "old": "        results = await gather_if_necessary(list_of_single_requirement_indicator_expressions)\n",
        "new": "        import asyncio, inspect\n"
        "        results = []\n"
        "        for item in [asyncio.ensure_future(x) if inspect.isawaitable(x) else x for x in "
        "list_of_single_requirement_indicator_expressions]:\n"
        "            res = (await item) if isinstance(item, asyncio.Future) else item\n"
        "            results.append(res)\n"
        "            if res.requirement_constraint_evaluation_result.requirement_constraints_fulfilled:\n"
        "                break\n",
    },
    {
        "name": "c16-invalid-pool-entry-not-selectable",
        "property": "C16",
        "file": "validation/validation.py",
        "old": "                            requirement_constraints_fulfilled=True,\n"
        "                            requirement_is_conditional=True,\n"
        "                            hints=invalid_expr_error.error_message,\n",
        "new": "                            requirement_constraints_fulfilled=False,\n"
        "                            requirement_is_conditional=True,\n"
        "                            hints=invalid_expr_error.error_message,\n",
    },
    {
        "name": "c16-invalid-segment-level-node-forbidden",
        "property": "C16",
        "file": "validation/validation.py",
        "old": "            hints=invalid_expr_error.error_message, requirement_validation=RequirementValidationValue."
        "IS_OPTIONAL\n",
        "new": "            hints=invalid_expr_error.error_message, requirement_validation=(\n"
        "                RequirementValidationValue.IS_FORBIDDEN if parent_segment_group_requirement is "
        "RequirementValidationValue.IS_OPTIONAL else RequirementValidationValue.IS_OPTIONAL)\n",
    },
    {
        "name": "c16-exception-type-narrowed-to-exception",
        "property": "C16",
        "file": "validation/validation.py",
        "old": "    fc_evaluators.text_to_be_evaluated_by_format_constraint.set(data_element.entered_input)\n"
        "    try:\n        evaluation_result = await evaluate_ahb_expression_tree(expression_tree)\n"
        "    except InvalidExpressionError as invalid_expr_error:\n",
        "new": "    fc_evaluators.text_to_be_evaluated_by_format_constraint.set(data_element.entered_input)\n"
        "    try:\n        evaluation_result = await evaluate_ahb_expression_tree(expression_tree)\n"
        "    except InvalidExpressionError as invalid_expr_error:\n"
        "        if segment_requirement is RequirementValidationValue.IS_OPTIONAL and data_element.entered_input:\n"
        "            raise\n",
    },
]
