#!/venv/bin/python
"""
Self-tests of the machinery (not registered checks):

    selftest.py determinism [--seeds N]   every seed twice in this interpreter (16 and 3 workers) and once in a fresh
                                          interpreter under another PYTHONHASHSEED; event-log digests must be identical
    selftest.py probes                    the evidence files of the last run: every required reach probe is non-zero
    selftest.py shrinkers [--seeds N]     shrink candidates of passing scenarios must pass on the tree as it is (the
                                          minimiser never leaves the space of scenarios the generator can make)
    selftest.py mutants [--only NAME] [--runs N] [--pytest]
                                          every mutant of mutants.py applied to a scratch copy of /repo/src (outside
                                          /repo and /verif, removed afterwards); the property's check must exit 1 with a
                                          VIOLATION line on the mutant and exit 0 on the unmodified copy
"""

import argparse
import json
import os
import shutil
import subprocess
import sys
import tempfile
import time

HERE = os.path.dirname(os.path.abspath(__file__))
sys.path.insert(0, HERE)

if os.environ.get("PYTHONHASHSEED") is None:
    os.environ["PYTHONHASHSEED"] = "0"
    os.execv(sys.executable, [sys.executable] + sys.argv)

PROPS = ["C10", "C11", "C12", "C13", "C15", "C16"]


def fingerprint(verdict):
    return [
        verdict.get("ok"),
        verdict.get("clause"),
        verdict.get("log_digest"),
        verdict.get("order_sig"),
        verdict.get("sim_time"),
        verdict.get("steps"),
        verdict.get("peer_calls"),
        verdict.get("harness_error"),
    ]


def digests(prop_id, seeds, workers):
    from sim import runner

    verdicts = runner.run_batch(prop_id, seeds, "quick", workers)
    return {str(v["seed"]): fingerprint(v) for v in verdicts}


def cmd_digests(args):
    seeds = list(range(args.first, args.first + args.seeds))
    json.dump(digests(args.prop, seeds, args.workers), sys.stdout)
    return 0


def cmd_determinism(args):
    failures = 0
    for prop_id in PROPS:
        seeds = list(range(args.first, args.first + args.seeds))
        started = time.monotonic()
        first = digests(prop_id, seeds, 16)
        second = digests(prop_id, seeds, 3)
        proc = subprocess.run(
            [sys.executable, os.path.abspath(__file__), "_digests", prop_id, "--seeds", str(args.seeds), "--first",
             str(args.first), "--workers", "7"],
            env=dict(os.environ, PYTHONHASHSEED="12345"),
            capture_output=True,
            text=True,
            check=False,
        )
        try:
            third = json.loads(proc.stdout)
        except ValueError:
            print(f"{prop_id}: fresh interpreter failed: {proc.stderr[-800:]}")
            failures += 1
            continue
        different = [s for s in first if not (first[s] == second.get(s) == third.get(s))]
        errors = [s for s in first if first[s][-1]]
        print(
            f"{prop_id}: {len(seeds)} seeds x (16 workers, 3 workers, fresh interpreter PYTHONHASHSEED=12345 7 workers): "
            f"{len(different)} divergent, {len(errors)} harness errors, {time.monotonic() - started:.0f}s"
        )
        for seed in different[:5]:
            print(f"   seed {seed}: {first[seed]} / {second.get(seed)} / {third.get(seed)}")
        failures += len(different) + len(errors)
    print("DETERMINISM-OK" if failures == 0 else f"DETERMINISM-FAILED ({failures})")
    return 0 if failures == 0 else 1


def apply_mutant(src_root, mutant):
    path = os.path.join(src_root, "ahbicht", mutant["file"])
    with open(path, encoding="utf-8") as stream:
        text = stream.read()
    for edit in [mutant] + mutant.get("also", []):
        if text.count(edit["old"]) != 1:
            raise RuntimeError(f"mutant {mutant['name']}: anchor found {text.count(edit['old'])} times in {path}")
        text = text.replace(edit["old"], edit["new"])
    with open(path, "w", encoding="utf-8") as stream:
        stream.write(text)


def run_check(prop_id, src_root, out_dir, runs):
    env = dict(os.environ, AHBICHT_SRC=src_root, VERIF_OUT=out_dir)
    env.pop("PYTHONHASHSEED", None)
    proc = subprocess.run(
        [sys.executable, os.path.join(HERE, "check.py"), prop_id, "--runs", str(runs)],
        env=env, capture_output=True, text=True, check=False, timeout=3600,
    )
    return proc.returncode, proc.stdout


def run_pytest(src_root):
    env = dict(os.environ, PYTHONPATH=src_root)
    probe = subprocess.run(
        ["/venv/bin/python", "-c", "import ahbicht, os; print(os.path.dirname(ahbicht.__file__))"],
        env=env, capture_output=True, text=True, check=False, cwd="/repo",
    )
    if not probe.stdout.strip().startswith(src_root):
        return f"pytest would not import the copy ({probe.stdout.strip()})"
    proc = subprocess.run(
        ["/venv/bin/python", "-m", "pytest", "-q", "-p", "no:cacheprovider", "-x", "--timeout=900"],
        env=env, capture_output=True, text=True, check=False, cwd="/repo",
    )
    return proc.stdout.strip().splitlines()[-1] if proc.stdout.strip() else f"exit {proc.returncode}"


def cmd_mutants(args):
    from mutants import MUTANTS

    selected = [m for m in MUTANTS if not args.only or args.only in m["name"] or args.only == m["property"]]
    scratch = tempfile.mkdtemp(prefix="ahbicht-mutants-")
    results = []
    try:
        clean = os.path.join(scratch, "clean")
        shutil.copytree("/repo/src", clean)
        if not args.skip_clean:
            for prop_id in sorted({m["property"] for m in selected}):
                code, output = run_check(prop_id, clean, os.path.join(scratch, "out-clean"), args.runs)
                status = "ok" if code == 0 and "VIOLATION" not in output else "FALSE-ALARM"
                print(f"unmodified copy {prop_id}: exit {code} {status}", flush=True)
                results.append({"mutant": "unmodified", "property": prop_id, "exit": code, "status": status})
        for mutant in selected:
            root = os.path.join(scratch, mutant["name"])
            shutil.copytree("/repo/src", root)
            try:
                apply_mutant(root, mutant)
                started = time.monotonic()
                code, output = run_check(mutant["property"], root, os.path.join(scratch, "out-" + mutant["name"]),
                                         args.runs)
                detected = code == 1 and f"VIOLATION property={mutant['property']}" in output
                clauses = sorted({line.split("clause=")[1].split(" ")[0] for line in output.splitlines()
                                  if line.strip().startswith("clause=")})
                unstable = "UNSTABLE-REPLAY" in output
                entry = {
                    "mutant": mutant["name"], "property": mutant["property"], "exit": code,
                    "status": "detected" if detected else "MISSED", "clauses": clauses, "unstable_replay": unstable,
                    "wall_s": round(time.monotonic() - started, 1),
                }
                if args.pytest:
                    entry["pytest"] = run_pytest(root)
                print(json.dumps(entry), flush=True)
                if not detected:
                    print(output[-1500:])
                results.append(entry)
            finally:
                shutil.rmtree(root, ignore_errors=True)
    finally:
        shutil.rmtree(scratch, ignore_errors=True)
    missed = [r for r in results if r["status"] in ("MISSED", "FALSE-ALARM")]
    os.makedirs(os.path.join(HERE, "selftest_results"), exist_ok=True)
    if not args.only:
        with open(os.path.join(HERE, "selftest_results", "mutants.json"), "w", encoding="utf-8") as stream:
            json.dump(results, stream, indent=1)
    print(f"MUTANTS: {len(results) - len(missed)}/{len(results)} as expected")
    return 0 if not missed else 1


REQUIRED_PROBES = {
    # evidence keys that must be non-zero after a quick batch: a probe stuck at zero means the workload or the fault
    # mix no longer reaches what the check is supposed to reach
    "C10": ["fault_counts.F4_unknown_package", "fault_counts.F3_sibling_cancel", "reach_probes.package_lookups",
            "out_of_order_completions"],
    "C11": ["fault_counts.F7_caller_edit", "fault_counts.F6_cache_flood", "fault_counts.F6_cache_evict_all",
            "reach_probes.reuse_after_edit", "reach_probes.reuse_after_eviction", "reach_probes.cache_hits_cond",
            "reach_probes.cache_hits_ahb", "reach_probes.parse_caches_found",
            "reach_probes.parse_of_exotic_white_space", "reach_probes.parse_of_exotic_white_space_after_flood"],
    "C12": ["fault_counts.F2_sibling_raise", "fault_counts.F3_sibling_cancel", "reach_probes.validity_setter_calls",
            "reach_probes.model_clause_applied", "reach_probes.fc_model_clause_applied",
            "reach_probes.more_than_16_keys_at_one_site", "out_of_order_completions"],
    "C13": ["reach_probes.pruned_nodes", "reach_probes.forbidden_nodes", "reach_probes.not_implemented_runs",
            "reach_probes.soll_false_runs", "fault_counts.F3_sibling_cancel", "out_of_order_completions"],
    "C15": ["reach_probes.owned_fc_calls", "reach_probes.fc_results_predicted", "reach_probes.elements_compared",
            "fault_counts.F3_sibling_cancel", "out_of_order_completions"],
    "C16": ["reach_probes.planted_reached", "reach_probes.planted_pruned", "reach_probes.position_g",
            "reach_probes.position_s", "reach_probes.position_f", "reach_probes.position_p-entry",
            "reach_probes.family_multi_part", "reach_probes.family_invalid_inside_package",
            "reach_probes.planted_8_or_more", "reach_probes.planted_at_every_position",
            "fault_counts.F5_invalid_expression"],
}


def cmd_probes(args):
    """evidence files of the last run: every required probe is non-zero, both parse caches were found"""
    problems = 0
    for prop_id, names in REQUIRED_PROBES.items():
        path = os.path.join(HERE, "evidence", f"{prop_id}.json")
        with open(path, encoding="utf-8") as stream:
            evidence = json.load(stream)
        coverage = evidence["coverage"]
        for name in names:
            value = coverage
            for part in name.split("."):
                value = (value or {}).get(part) if isinstance(value, dict) else None
            if not value:
                print(f"{prop_id}: probe {name} is {value!r}")
                problems += 1
        if coverage["reach_probes"].get("report_does_not_fit_tree"):
            print(f"{prop_id}: {coverage['reach_probes']['report_does_not_fit_tree']} reports did not fit the AHB tree "
                  "(those runs were not judged)")
            problems += 1
        if prop_id == "C11" and coverage["reach_probes"].get("parse_caches_found") != 2 * coverage["evaluations"]:
            print("C11: the two parse caches were not found in every run (total eviction would be a no-op)")
            problems += 1
        print(f"{prop_id}: {len(names)} probes checked, evaluations={coverage['evaluations']}, "
              f"distinct_nontrivial={coverage['distinct_nontrivial']}, violations={evidence.get('violations')}")
    print("PROBES-OK" if not problems else f"PROBES-FAILED ({problems})")
    return 0 if not problems else 1


def _shrink_probe(job):
    """shrink candidates of one passing scenario, run on the tree as it is: how many of them fail?"""
    import itertools
    import random

    from sim import runner

    prop_id, seed, tier, per_scenario = job
    module = runner.prop_module(prop_id)
    scenario = module.generate(seed, tier)
    candidates = list(itertools.islice(module.shrink(scenario), 400))
    random.Random(seed).shuffle(candidates)
    failing = []
    for candidate in candidates[:per_scenario]:
        candidate = json.loads(json.dumps(candidate))
        verdict = runner.run_scenario(prop_id, candidate)
        if not verdict.get("ok"):
            failing.append([seed, verdict.get("clause"), (verdict.get("detail") or verdict.get("harness_error") or "")[:300]])
    return len(candidates[:per_scenario]), failing


def cmd_shrinkers(args):
    """
    the minimiser accepts a shrink candidate whenever it fails like the violation it is minimising - so no candidate
    of a *passing* scenario may fail on the tree as it is (it would not be a scenario generate() could have made, and a
    replay file minimised down to it would report a violation of a library that has none)
    """
    from concurrent.futures import ProcessPoolExecutor
    import multiprocessing

    problems = 0
    for prop_id in ([args.only] if args.only else PROPS):
        jobs = [(prop_id, seed, tier, args.per_scenario) for tier in ("quick", "thorough")
                for seed in range(args.first, args.first + args.seeds)]
        tried, failing = 0, []
        with ProcessPoolExecutor(max_workers=args.workers, mp_context=multiprocessing.get_context("fork")) as pool:
            for count, bad in pool.map(_shrink_probe, jobs, chunksize=4):
                tried += count
                failing.extend(bad)
        print(f"{prop_id}: {tried} shrink candidates of {len(jobs)} passing scenarios run, {len(failing)} fail")
        for entry in failing[:8]:
            print("   ", entry)
        problems += len(failing)
    print("SHRINKERS-OK" if not problems else f"SHRINKERS-FAILED ({problems})")
    return 0 if not problems else 1


def main():
    parser = argparse.ArgumentParser()
    sub = parser.add_subparsers(dest="command", required=True)
    det = sub.add_parser("determinism")
    det.add_argument("--seeds", type=int, default=200)
    det.add_argument("--first", type=int, default=0)
    dig = sub.add_parser("_digests")
    dig.add_argument("prop")
    dig.add_argument("--seeds", type=int, default=200)
    dig.add_argument("--first", type=int, default=0)
    dig.add_argument("--workers", type=int, default=16)
    mut = sub.add_parser("mutants")
    mut.add_argument("--only")
    mut.add_argument("--runs", type=int, default=1500)
    mut.add_argument("--pytest", action="store_true")
    mut.add_argument("--skip-clean", action="store_true")
    sub.add_parser("probes")
    shr = sub.add_parser("shrinkers")
    shr.add_argument("--seeds", type=int, default=150)
    shr.add_argument("--first", type=int, default=0)
    shr.add_argument("--per-scenario", type=int, default=25)
    shr.add_argument("--workers", type=int, default=16)
    shr.add_argument("--only")
    args = parser.parse_args()
    return {"determinism": cmd_determinism, "_digests": cmd_digests, "mutants": cmd_mutants,
            "probes": cmd_probes, "shrinkers": cmd_shrinkers}[args.command](args)


if __name__ == "__main__":
    sys.exit(main())
