"""
Batch execution: every simulated run (and every reference run it needs) happens in a forked child of a process that
has imported ahbicht but never executed any of it - so each run starts from pristine process-global state (parse
caches, injector, module globals) and a replay in a fresh interpreter sees exactly what the batch saw.
"""

import concurrent.futures
import faulthandler
import importlib
import json
import multiprocessing
import os
import select
import signal
import sys
import time
import traceback

PROPS = {
    "C10": "sim.props.c10",
    "C11": "sim.props.c11",
    "C12": "sim.props.c12",
    "C13": "sim.props.c13",
    "C15": "sim.props.c15",
    "C16": "sim.props.c16",
}


class HarnessError(Exception):
    """something went wrong in the machinery itself (never reported as a violation, never as success)"""


def prop_module(prop_id):
    return importlib.import_module(PROPS[prop_id])


def pristine(func, *args, timeout=180, perturb=0):
    """
    runs func(*args) in a forked child and returns its (JSON-able) result.
    perturb > 0 shifts the child's heap layout first: code under test that iterates a set of id()-hashed objects
    (e.g. asyncio.as_completed) has an address dependent order which the simulator cannot own; a failure that is to be
    written out as a replay file must not depend on it.
    """
    read_fd, write_fd = os.pipe()
    pid = os.fork()
    if pid == 0:
        status = 0
        try:
            os.close(read_fd)
            faulthandler.enable()
            _junk = [bytes((i * 8) % 496) for i in range(perturb * 1009)]  # noqa: F841  (all small size classes)
            try:
                payload = {"result": func(*args)}
            except BaseException:  # pylint:disable=broad-except
                payload = {"harness_error": traceback.format_exc()[-4000:]}
            data = json.dumps(payload).encode("utf-8")
            with os.fdopen(write_fd, "wb") as stream:
                stream.write(data)
        except BaseException:  # pylint:disable=broad-except
            status = 3
        finally:
            os._exit(status)
    os.close(write_fd)
    chunks = []
    deadline = time.monotonic() + timeout
    timed_out = False
    try:
        while True:
            remaining = deadline - time.monotonic()
            if remaining <= 0:
                timed_out = True
                break
            ready, _, _ = select.select([read_fd], [], [], min(remaining, 5.0))
            if not ready:
                continue
            block = os.read(read_fd, 1 << 16)
            if not block:
                break
            chunks.append(block)
    finally:
        os.close(read_fd)
        if timed_out:
            try:
                os.kill(pid, signal.SIGKILL)
            except ProcessLookupError:
                pass
        os.waitpid(pid, 0)
    if timed_out:
        raise HarnessError(f"child exceeded the wall clock limit of {timeout}s")
    try:
        payload = json.loads(b"".join(chunks).decode("utf-8"))
    except ValueError as error:
        raise HarnessError("child died without a result") from error
    if "harness_error" in payload:
        raise HarnessError(payload["harness_error"])
    return payload["result"]


def _generate_and_execute(prop_id, seed, tier):
    module = prop_module(prop_id)
    scenario = module.generate(seed, tier)
    verdict = module.execute(scenario)
    verdict["seed"] = seed
    if not verdict.get("ok", False) or verdict.pop("keep_scenario", False):
        verdict["scenario"] = scenario
    else:
        verdict["summary"] = module.summarise(scenario)
    return verdict


def _execute(prop_id, scenario):
    module = prop_module(prop_id)
    verdict = module.execute(scenario)
    verdict["seed"] = scenario.get("seed")
    return verdict


def run_seed(prop_id, seed, tier):
    try:
        return pristine(_generate_and_execute, prop_id, seed, tier)
    except HarnessError as error:
        return {"seed": seed, "ok": False, "harness_error": str(error)}


def run_scenario(prop_id, scenario, with_log=False, perturb=0):
    try:
        if with_log:
            scenario = dict(scenario, _with_log=True)
        return pristine(_execute, prop_id, scenario, perturb=perturb)
    except HarnessError as error:
        return {"seed": scenario.get("seed"), "ok": False, "harness_error": str(error)}


def _chunk_worker(prop_id, seeds, tier):
    faulthandler.enable()
    out = []
    kept = {True: 0, False: 0}
    for seed in seeds:
        verdict = run_seed(prop_id, seed, tier)
        if verdict.get("ok"):
            verdict.pop("consulted", None)
            flavour = bool(verdict.get("nontrivial"))
            if kept[flavour] >= 1:
                verdict.pop("summary", None)  # a few written-out samples per chunk are enough for the evidence file
            else:
                kept[flavour] += 1
        out.append(verdict)
    return out


def run_batch(prop_id, seeds, tier, workers, chunk=20, progress=None, wall_limit=None):
    """returns the list of verdicts (in seed order); chunks that fail in the machinery yield harness_error verdicts"""
    from sim import env  # noqa: F401  (import ahbicht once in the parent so that workers inherit it)

    prop_module(prop_id)
    chunks = [seeds[i : i + chunk] for i in range(0, len(seeds), chunk)]
    verdicts = []
    started = time.monotonic()
    context = multiprocessing.get_context("fork")
    with concurrent.futures.ProcessPoolExecutor(max_workers=workers, mp_context=context) as pool:
        futures = {pool.submit(_chunk_worker, prop_id, c, tier): c for c in chunks}
        done_count = 0
        try:
            for future in concurrent.futures.as_completed(futures, timeout=wall_limit):
                seeds_of_chunk = futures[future]
                try:
                    verdicts.extend(future.result())
                except BaseException as error:  # pylint:disable=broad-except
                    for seed in seeds_of_chunk:
                        verdicts.append({"seed": seed, "ok": False, "harness_error": f"worker failed: {error!r}"})
                done_count += 1
                if progress and done_count % max(1, len(chunks) // 10) == 0:
                    progress(done_count, len(chunks), time.monotonic() - started)
        except concurrent.futures.TimeoutError:
            for future, seeds_of_chunk in futures.items():
                if not future.done():
                    future.cancel()
                    for seed in seeds_of_chunk:
                        verdicts.append({"seed": seed, "ok": False, "harness_error": "batch wall clock limit"})
            for process in list(getattr(pool, "_processes", {}).values()):
                process.kill()
    verdicts.sort(key=lambda v: v["seed"])
    return verdicts


# ------------------------------------------------------------------------------------------------- minimisation
def robustly_fails(prop_id, scenario, clause, perturbs=(0, 1, 2, 5)):
    """the verdict if the scenario fails with this clause under several heap layouts of the child, else None"""
    result = None
    for perturb in perturbs:
        result = run_scenario(prop_id, scenario, perturb=perturb)
        if result.get("ok") or result.get("clause") != clause or "harness_error" in result:
            return None
    return result


def minimise(prop_id, scenario, verdict, budget_s=90, log=None):
    """
    greedy: apply the property's shrink candidates one at a time, keep a candidate iff the *same clause* still fails.
    Returns (smaller scenario, its verdict, number of candidates tried).
    """
    module = prop_module(prop_id)
    target = verdict.get("clause")
    best, best_verdict = scenario, verdict
    deadline = time.monotonic() + budget_s
    tried = 0

    def still_fails(candidate):
        return robustly_fails(prop_id, candidate, target)

    # first make every schedule decision explicit so that they can be edited one by one
    consulted = verdict.get("consulted")
    if consulted is not None and not scenario.get("decisions_closed"):
        candidate = dict(scenario, decisions=consulted, decisions_closed=True)
        result = still_fails(candidate)
        tried += 1
        if result:
            best, best_verdict = candidate, result
    progress = True
    while progress and time.monotonic() < deadline:
        progress = False
        for candidate in module.shrink(best):
            if time.monotonic() >= deadline:
                break
            result = still_fails(candidate)
            tried += 1
            if result:
                best, best_verdict = candidate, result
                progress = True
                if log:
                    log(f"  shrunk to size {module.size(best)} after {tried} candidates")
                break
    return best, best_verdict, tried


def shrink_decisions(scenario):
    """generic candidates on the schedule: turn latencies into 'no yield', then make them small"""
    decisions = scenario.get("decisions") or {}
    if not scenario.get("decisions_closed"):
        return
    yielding = [k for k, v in decisions.items() if v[0] != "n"]
    if len(yielding) > 1:
        # all at once in halves, then one by one
        half = len(yielding) // 2
        for part in (yielding[:half], yielding[half:]):
            yield dict(scenario, decisions={k: (["n"] if k in part else v) for k, v in decisions.items()})
    for key in yielding:
        yield dict(scenario, decisions={k: (["n"] if k == key else v) for k, v in decisions.items()})
    # drop entries that do not yield anyway (closed table: missing means no yield)
    lean = {k: v for k, v in decisions.items() if v[0] != "n"}
    if len(lean) < len(decisions):
        yield dict(scenario, decisions=lean)
    # rank-compress the sleeping times (keeps the completion order, makes the numbers small)
    sleeps = sorted({v[1] for v in decisions.values() if v[0] == "s"})
    rank = {d: i + 1 for i, d in enumerate(sleeps)}
    if any(rank[d] != d for d in sleeps):
        yield dict(
            scenario, decisions={k: (["s", rank[v[1]]] if v[0] == "s" else v) for k, v in decisions.items()}
        )


# ------------------------------------------------------------------------------------------------------ replay
def confirm_in_fresh_interpreter(replay_path, prop_id, hash_seeds=("12345", "777")):
    """re-runs the replay file in new interpreters under other PYTHONHASHSEEDs; True iff it fails every time"""
    import subprocess

    check = os.path.join(os.path.dirname(os.path.dirname(os.path.abspath(__file__))), "check.py")
    output = ""
    for hash_seed in hash_seeds:
        env = dict(os.environ, PYTHONHASHSEED=hash_seed)
        proc = subprocess.run(
            [sys.executable, check, "--replay", replay_path, "--quiet"],
            env=env,
            capture_output=True,
            text=True,
            timeout=600,
            check=False,
        )
        output = proc.stdout[-2000:] + proc.stderr[-2000:]
        if not (proc.returncode == 1 and f"VIOLATION property={prop_id}" in proc.stdout):
            return False, output
    return True, output
