"""
Seeded generator for deep AHBs as plain nested dicts (the scenario file format), a builder that turns such a dict into
the maus objects ahbicht validates, and a document-order walk used by the reference models.

group   : {"t": "g", "d": discriminator, "e": ahb expression, "groups": [...], "segments": [...]}
segment : {"t": "s", "d": ..., "e": ..., "des": [...]}
free    : {"t": "f", "d": ..., "e": ..., "input": str|None}
pool    : {"t": "p", "d": ..., "input": str|None, "pool": [{"q": qualifier, "m": meaning, "e": expression}]}
"""


def gen_ahb(rnd, pick_expr, n_roots=(1, 3), depth=2, fanout=(0, 2), n_segments=(0, 3), n_des=(0, 3),
            p_pool=0.3, free_inputs=None, pick_free_expr=None, pick_pool_expr=None):
    """
    pick_expr(kind) -> expression string for a node of kind "g"/"s"; pick_free_expr / pick_pool_expr likewise.
    """
    pick_free_expr = pick_free_expr or (lambda: pick_expr("f"))
    pick_pool_expr = pick_pool_expr or (lambda: pick_expr("p"))
    counter = [0]

    def nxt(prefix):
        counter[0] += 1
        return f"{prefix}{counter[0]}"

    def gen_free():
        disc = nxt("F")
        if free_inputs is not None:
            value = free_inputs(rnd, disc)
        else:
            value = rnd.choice([None, "", f"txt-{disc}", f"txt-{disc}", f"in {disc}", "0"])
        return {"t": "f", "d": disc, "e": pick_free_expr(), "input": value}

    def gen_pool():
        disc = nxt("P")
        size = rnd.choice([1, 2, 2, 3])
        qualifiers = rnd.sample(["E01", "E02", "E03", "Z10", "Z11", "Z33", "293", "9"], size)
        entries = [{"q": q, "m": f"meaning of {q}", "e": pick_pool_expr()} for q in qualifiers]
        value = rnd.choice([None, "", qualifiers[0], qualifiers[-1], "ZZZ"])
        return {"t": "p", "d": disc, "input": value, "pool": entries}

    def gen_segment():
        des = [gen_pool() if rnd.random() < p_pool else gen_free() for _ in range(rnd.randint(*n_des))]
        return {"t": "s", "d": nxt("S"), "e": pick_expr("s"), "des": des}

    def gen_group(level):
        node = {"t": "g", "d": nxt("G"), "e": pick_expr("g"), "groups": [], "segments": []}
        if level < depth:
            node["groups"] = [gen_group(level + 1) for _ in range(rnd.randint(*fanout))]
        node["segments"] = [gen_segment() for _ in range(rnd.randint(*n_segments))]
        return node

    ahb = {"lines": [gen_group(0) for _ in range(rnd.randint(*n_roots))]}
    # maus keeps the line of the flat AHB a node came from in `ahb_line_index` (optional, informational): document
    # order is the order of the lists - the indexes may be absent, ascending, or not in list order at all
    mode = rnd.choice(["none", "none", "ascending", "shuffled", "partial"])
    if mode != "none":
        nodes = [n for n, _ in walk(ahb) if n["t"] in ("g", "s")]
        indexes = list(range(1, len(nodes) + 1))
        if mode != "ascending":
            rnd.shuffle(indexes)
        for node, index in zip(nodes, indexes):
            if mode != "partial" or rnd.random() < 0.5:
                node["li"] = index
    return ahb


def build_ahb(ahb):
    """dict -> DeepAnwendungshandbuch (fresh objects every time: validation mutates entered_input of value pools)"""
    from maus.models.anwendungshandbuch import AhbMetaInformation, DeepAnwendungshandbuch

    return DeepAnwendungshandbuch(
        meta=AhbMetaInformation(pruefidentifikator="11042"), lines=[build_node(g) for g in ahb["lines"]]
    )


def build_node(node):
    from maus.models.edifact_components import (
        DataElementFreeText,
        DataElementValuePool,
        Segment,
        SegmentGroup,
        ValuePoolEntry,
    )

    kind = node["t"]
    line_index = {"ahb_line_index": node["li"]} if node.get("li") is not None else {}
    if kind == "g":
        # maus allows both None and [] for "nothing here"; which one is used is decided by the node itself
        use_none = sum(map(ord, node["d"])) % 2 == 0
        return SegmentGroup(
            discriminator=node["d"],
            ahb_expression=node["e"],
            **line_index,
            segments=[build_node(s) for s in node.get("segments", [])] or (None if use_none else []),
            segment_groups=[build_node(g) for g in node.get("groups", [])] or (None if use_none else []),
        )
    if kind == "s":
        return Segment(
            discriminator=node["d"], ahb_expression=node["e"], data_elements=[build_node(d) for d in node["des"]],
            **line_index,
        )
    if kind == "f":
        from maus.models.edifact_components import DataElementDataType

        extra = {"value_type": DataElementDataType.DATETIME} if node.get("vt") == "DATETIME" else {}
        return DataElementFreeText(
            discriminator=node["d"], ahb_expression=node["e"], entered_input=node["input"], data_element_id="1234",
            **extra,
        )
    if kind == "p":
        return DataElementValuePool(
            discriminator=node["d"],
            entered_input=node["input"],
            data_element_id="0333",
            value_pool=[ValuePoolEntry(qualifier=e["q"], meaning=e["m"], ahb_expression=e["e"]) for e in node["pool"]],
        )
    raise ValueError(kind)


def walk(ahb):
    """yields (node, parent) in document order: a group, then its sub-groups, then its segments each followed by
    its data elements"""

    def visit(node, parent):
        yield node, parent
        if node["t"] == "g":
            for sub in node.get("groups", []):
                yield from visit(sub, node)
            for seg in node.get("segments", []):
                yield from visit(seg, node)
        elif node["t"] == "s":
            for de in node["des"]:
                yield de, node

    for root in ahb["lines"]:
        yield from visit(root, None)


def attribute_items(ahb, items):
    """
    The walk position of every reported item, or None if the report does not fit the tree. Discriminators may repeat
    anywhere in an AHB, so a name does not identify a node: the report itself says which nodes are missing (everything
    below a group or segment it reports forbidden), so the items are consumed as a queue along the document order and
    the sub-tree of a forbidden node is stepped over.
    """
    positions, queue, counter = [], list(items), [0]

    class Mismatch(Exception):
        pass

    def size(node):
        if node["t"] == "g":
            return 1 + sum(size(c) for c in node.get("groups", [])) + sum(size(c) for c in node.get("segments", []))
        if node["t"] == "s":
            return 1 + len(node["des"])
        return 1

    def visit(node):
        position = counter[0]
        counter[0] += 1
        if len(positions) == len(queue) or queue[len(positions)]["discriminator"] != node["d"]:
            raise Mismatch
        item = queue[len(positions)]
        positions.append(position)
        if node["t"] not in ("g", "s"):
            return
        result = item.get("validation_result")
        status = str(result.get("requirement_validation")) if isinstance(result, dict) else ""
        if status.split(".")[-1] == "IS_FORBIDDEN":
            counter[0] += size(node) - 1
            return
        children = node.get("groups", []) + node.get("segments", []) if node["t"] == "g" else node["des"]
        for child in children:
            visit(child)

    try:
        for root in ahb["lines"]:
            visit(root)
    except Mismatch:
        return None
    return positions if len(positions) == len(queue) else None


def count_nodes(ahb):
    return sum(1 for _ in walk(ahb))


def expressions_of(ahb):
    """all (holder dict, key) pairs that carry an expression string - nodes and value pool entries"""
    out = []
    for node, _ in walk(ahb):
        if node["t"] == "p":
            for entry in node["pool"]:
                out.append((entry, "e"))
        else:
            out.append((node, "e"))
    return out


def shrink_ahb(ahb):
    """yields structurally smaller copies of the AHB dict (drop sub-trees first, then single leaves)"""
    import copy

    def paths(node, path):
        if node["t"] == "g":
            for i, sub in enumerate(node.get("groups", [])):
                yield path + [("groups", i)]
                yield from paths(sub, path + [("groups", i)])
            for i, seg in enumerate(node.get("segments", [])):
                yield path + [("segments", i)]
                yield from paths(seg, path + [("segments", i)])
        elif node["t"] == "s":
            for i, de in enumerate(node["des"]):
                yield path + [("des", i)]
                if de["t"] == "p" and len(de["pool"]) > 1:
                    for j in range(len(de["pool"])):
                        yield path + [("des", i), ("pool", j)]

    all_paths = []
    for i, root in enumerate(ahb["lines"]):
        if len(ahb["lines"]) > 1:
            all_paths.append([("lines", i)])
        all_paths.extend(paths(root, [("lines", i)]))
    # bigger sub-trees first
    for path in sorted(all_paths, key=len):
        clone = copy.deepcopy(ahb)
        holder = clone
        for field, index in path[:-1]:
            holder = holder[field][index]
        field, index = path[-1]
        del holder[field][index]
        yield clone
