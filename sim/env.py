"""
Import seam: puts /repo/src first on sys.path so that the *current working tree* of the
repository is what runs (python, nothing to build), fixes the import order ahbicht needs
and silences ahbicht's DEBUG loggers (they are not part of any oracle).
"""

import logging
import os
import sys
import warnings

REPO_SRC = os.environ.get("AHBICHT_SRC", "/repo/src")
if sys.path[0] != REPO_SRC:
    sys.path.insert(0, REPO_SRC)

warnings.filterwarnings("ignore", category=SyntaxWarning)
warnings.filterwarnings("ignore", category=RuntimeWarning)  # 'coroutine ... was never awaited' of orphaned siblings


class _FormatAndDiscard(logging.Handler):
    """
    ahbicht sets its loggers to DEBUG and logs on every step: in production every `isEnabledFor` guard is true and
    every lazy %s argument is formatted. Logging therefore stays *on* in the simulation (code behind a log-level guard
    runs, log arguments are evaluated) - the records are formatted and thrown away.
    """

    def emit(self, record):
        try:
            record.getMessage()
            if record.exc_info:
                logging.Formatter().formatException(record.exc_info)
        except Exception:  # pylint:disable=broad-except
            pass  # like logging's own handlers (Handler.handleError): a formatting problem never reaches the caller


logging.disable(logging.NOTSET)
_root_logger = logging.getLogger()
_root_logger.handlers[:] = [_FormatAndDiscard(level=1)]
_root_logger.setLevel(1)

# order matters: ahbicht.content_evaluation must come before expression_resolver (circular import otherwise)
import ahbicht  # noqa: E402
import ahbicht.content_evaluation  # noqa: E402,F401
import ahbicht.expressions.expression_resolver  # noqa: E402,F401
import ahbicht.validation.validation  # noqa: E402,F401

_real = os.path.realpath(ahbicht.__file__)
if not _real.startswith(os.path.realpath(REPO_SRC) + os.sep):
    raise ImportError(f"ahbicht was imported from {_real}, not from {REPO_SRC}")


def find_parse_caches():
    """
    returns the lru_cache wrappers behind the two public parse functions (walks __wrapped__/__closure__),
    or an empty list if a refactoring hid them. Only used for *measuring* (hits/misses/evictions);
    isolation between runs does not rely on it (every run is a forked child of a process that never parsed).
    """
    from ahbicht.expressions import ahb_expression_parser, condition_expression_parser

    found = []
    for func in (
        condition_expression_parser.parse_condition_expression_to_tree,
        ahb_expression_parser.parse_ahb_expression_to_single_requirement_indicator_expressions,
    ):
        seen, stack = set(), [func]
        while stack:
            obj = stack.pop()
            if id(obj) in seen:
                continue
            seen.add(id(obj))
            if hasattr(obj, "cache_info") and hasattr(obj, "cache_clear"):
                found.append(obj)
                break
            wrapped = getattr(obj, "__wrapped__", None)
            if wrapped is not None:
                stack.append(wrapped)
            for cell in getattr(obj, "__closure__", None) or ():
                try:
                    stack.append(cell.cell_contents)
                except ValueError:
                    pass
    return found
