"""
Virtual-time asyncio event loop. Real CPython Task/Future/gather/contextvars machinery, real
BaseEventLoop._run_once (FIFO ready queue, timer heap) - only the clock and the selector are simulated:
when nothing is ready the clock jumps to the next timer; when nothing is ready and no timer is pending
while the main coroutine is unfinished the run is a deadlock.
"""

import asyncio
import threading
import time as _wall


class SimDeadlock(Exception):
    """nothing runnable, no timer pending, main coroutine not done"""


class SimStepCap(Exception):
    """the run exceeded its step budget"""


class _FakeSelector:
    def __init__(self, loop):
        self._loop = loop
        self._idle_budget = 3000

    def select(self, timeout=None):
        if timeout is None:
            # nothing ready and no timer pending. If the code under test started real threads of its own (an own
            # ThreadPoolExecutor, say), their completion arrives through call_soon_threadsafe: give them wall-clock
            # time before calling it a deadlock - at most ~3 s of *consecutive* idle waiting (idle pool threads stay
            # alive for ever; the budget is refilled whenever the loop had something to do). The simulator owns no
            # schedule there - it just must not report a false deadlock.
            if threading.active_count() > 1 and self._idle_budget > 0:
                self._idle_budget -= 1
                _wall.sleep(0.001)
                return []
            raise SimDeadlock(f"deadlock at virtual time {self._loop.time()}")
        if timeout > 0:
            if threading.active_count() > 1:
                _wall.sleep(0.0002)  # a moment for finished threads to hand in their results, then time moves on
            self._loop._vtime += timeout
        return []

    def close(self):
        pass


class SimLoop(asyncio.BaseEventLoop):
    def __init__(self, step_cap=200_000):
        super().__init__()
        self._vtime = 0.0
        self._selector = _FakeSelector(self)
        self.steps = 0
        self._spinning = 0
        self.step_cap = step_cap
        self._clock_resolution = 1e-9

    def time(self):
        return self._vtime

    def _process_events(self, event_list):
        pass

    def _write_to_self(self):
        pass

    def _run_once(self):
        self.steps += 1
        if self.steps > self.step_cap:
            raise SimStepCap(f"more than {self.step_cap} loop iterations")
        if self._ready:
            self._selector._idle_budget = 3000
            # busy waiting (`while not done: await sleep(0)`) is legal: on a real loop the clock runs while the
            # task spins. Here time only moves when nothing is ready - so after a long stretch of uninterrupted
            # spinning with timers pending, the clock jumps to the next timer.
            self._spinning += 1
            if self._spinning > 400 and self._scheduled:
                when = min(handle._when for handle in self._scheduled if not handle._cancelled) if any(
                    not handle._cancelled for handle in self._scheduled) else None
                if when is not None and when > self._vtime:
                    self._vtime = when
                self._spinning = 0
        else:
            self._spinning = 0
        super()._run_once()

    def run_in_executor(self, executor, func, *args):
        """
        no real threads in the simulation: the job runs as one more event of the loop, in a *fresh* contextvars
        context - which is what a worker thread of a real executor has (run_in_executor does not copy the caller's
        context). Deterministic, and a legitimate use of an executor neither deadlocks nor is flagged.
        """
        import contextvars

        future = self.create_future()

        def job():
            if future.cancelled():
                return
            try:
                future.set_result(func(*args))
            except BaseException as exc:  # pylint:disable=broad-except
                if isinstance(exc, (KeyboardInterrupt, SystemExit)):
                    raise
                future.set_exception(exc)

        self.call_soon(job, context=contextvars.Context())
        return future

    def close(self):
        if not self.is_closed():
            super().close()


def run_in_sim(main_coro_factory, step_cap=200_000):
    """
    runs main_coro_factory() to completion in a fresh SimLoop; afterwards cancels and drains left-over tasks
    (orphaned gather siblings). returns (result_or_exception, loop) - an exception of the main coroutine is
    *returned*, SimDeadlock / SimStepCap are raised.
    """
    loop = SimLoop(step_cap=step_cap)
    asyncio.set_event_loop(loop)
    # code that measures durations with the time module sees the simulated clock (a guard like "took longer than
    # 1.5 s" is reached by simulated latencies, as it would be by real ones)
    real_clocks = (_wall.monotonic, _wall.perf_counter, _wall.time)
    base = (real_clocks[0](), real_clocks[1](), real_clocks[2]())
    _wall.monotonic = lambda: base[0] + loop.time()
    _wall.perf_counter = lambda: base[1] + loop.time()
    _wall.time = lambda: base[2] + loop.time()
    loop.set_exception_handler(lambda _loop, _ctx: None)  # 'exception was never retrieved' of orphans
    outcome = None
    try:
        try:
            outcome = loop.run_until_complete(main_coro_factory())
        except (SimDeadlock, SimStepCap):
            raise
        except BaseException as exc:  # pylint:disable=broad-except
            if isinstance(exc, (KeyboardInterrupt, SystemExit)):
                raise
            outcome = exc
        # drain orphans outside of the observed part
        loop.step_cap = 10**9
        for _ in range(50):
            pending = [t for t in asyncio.all_tasks(loop) if not t.done()]
            if not pending:
                break
            for task in pending:
                task.cancel()
            try:
                loop.run_until_complete(asyncio.gather(*pending, return_exceptions=True))
            except BaseException:  # pylint:disable=broad-except
                pass
        return outcome, loop
    finally:
        _wall.monotonic, _wall.perf_counter, _wall.time = real_clocks
        asyncio.set_event_loop(None)
        loop.close()
