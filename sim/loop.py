"""
Virtual-time asyncio event loop. Real CPython Task/Future/gather/contextvars machinery, real
BaseEventLoop._run_once (FIFO ready queue, timer heap) - only the clock and the selector are simulated:
when nothing is ready the clock jumps to the next timer; when nothing is ready and no timer is pending
while the main coroutine is unfinished the run is a deadlock.
"""

import asyncio
import threading
import time as _wall


class SimDeadlock(Exception):
    """nothing runnable, no timer pending, main coroutine not done"""


class SimStepCap(Exception):
    """the run exceeded its step budget"""


class _FakeSelector:
    def __init__(self, loop):
        self._loop = loop
        self._thread_grace = 10_000  # ~10 s of wall clock in total

    def select(self, timeout=None):
        if timeout is None:
            # nothing ready and no timer pending. If the code under test started real threads of its own (an own
            # ThreadPoolExecutor, say), their completion arrives through call_soon_threadsafe: give them wall-clock
            # time (bounded) before calling it a deadlock. The simulator owns no schedule there - it just must not
            # report a false deadlock.
            if threading.active_count() > 1 and self._thread_grace > 0:
                self._thread_grace -= 1
                _wall.sleep(0.001)
                return []
            raise SimDeadlock(f"deadlock at virtual time {self._loop.time()}")
        if timeout > 0:
            if threading.active_count() > 1 and self._thread_grace > 0:
                # let finished threads hand in their results before virtual time jumps to the next timer
                self._thread_grace -= 1
                _wall.sleep(0.0005)
                return []
            self._loop._vtime += timeout
        return []

    def close(self):
        pass


class SimLoop(asyncio.BaseEventLoop):
    def __init__(self, step_cap=200_000):
        super().__init__()
        self._vtime = 0.0
        self._selector = _FakeSelector(self)
        self.steps = 0
        self.step_cap = step_cap
        self._clock_resolution = 1e-9

    def time(self):
        return self._vtime

    def _process_events(self, event_list):
        pass

    def _write_to_self(self):
        pass

    def _run_once(self):
        self.steps += 1
        if self.steps > self.step_cap:
            raise SimStepCap(f"more than {self.step_cap} loop iterations")
        super()._run_once()

    def run_in_executor(self, executor, func, *args):
        """
        no real threads in the simulation: the job runs as one more event of the loop, in a *fresh* contextvars
        context - which is what a worker thread of a real executor has (run_in_executor does not copy the caller's
        context). Deterministic, and a legitimate use of an executor neither deadlocks nor is flagged.
        """
        import contextvars

        future = self.create_future()

        def job():
            if future.cancelled():
                return
            try:
                future.set_result(func(*args))
            except BaseException as exc:  # pylint:disable=broad-except
                if isinstance(exc, (KeyboardInterrupt, SystemExit)):
                    raise
                future.set_exception(exc)

        self.call_soon(job, context=contextvars.Context())
        return future

    def close(self):
        if not self.is_closed():
            super().close()


def run_in_sim(main_coro_factory, step_cap=200_000):
    """
    runs main_coro_factory() to completion in a fresh SimLoop; afterwards cancels and drains left-over tasks
    (orphaned gather siblings). returns (result_or_exception, loop) - an exception of the main coroutine is
    *returned*, SimDeadlock / SimStepCap are raised.
    """
    loop = SimLoop(step_cap=step_cap)
    asyncio.set_event_loop(loop)
    loop.set_exception_handler(lambda _loop, _ctx: None)  # 'exception was never retrieved' of orphans
    outcome = None
    try:
        try:
            outcome = loop.run_until_complete(main_coro_factory())
        except (SimDeadlock, SimStepCap):
            raise
        except BaseException as exc:  # pylint:disable=broad-except
            if isinstance(exc, (KeyboardInterrupt, SystemExit)):
                raise
            outcome = exc
        # drain orphans outside of the observed part
        loop.step_cap = 10**9
        for _ in range(50):
            pending = [t for t in asyncio.all_tasks(loop) if not t.done()]
            if not pending:
                break
            for task in pending:
                task.cancel()
            try:
                loop.run_until_complete(asyncio.gather(*pending, return_exceptions=True))
            except BaseException:  # pylint:disable=broad-except
                pass
        return outcome, loop
    finally:
        asyncio.set_event_loop(None)
        loop.close()
