"""
C10 - resolving packages and time conditions is exact bracketed substitution.

Workload: one resolve / expand call on a generated condition or AHB expression with 1-6 abbreviations (repeated,
neighbouring, nested in package expressions), a package table of 2-5 generated expressions.
Schedule: completion order of the concurrently awaited package look-ups (resolver latencies from the PRF).
Fault F4: the resolver has no entry for one of the used package keys (while the other look-ups are in flight).
Oracle: the returned tree equals the tree the real parser builds for the textually substituted expression
(computed in a pristine process); with F4 the call must raise NotImplementedError.
"""

import re

from sim import env  # noqa: F401
from sim.gen_expr import gen_wellformed, keys_of, render, render_ahb
from sim.prf import PROFILES, rng
from sim.props.common import (
    LIVENESS_ERRORS,
    ast_size,
    base_verdict,
    clone,
    fail,
    is_exception,
    liveness_verdict,
    shrink_ast,
    strip_msg,
    to_tuple,
)
from sim.canon import dumps
from sim.runner import pristine, shrink_decisions
from sim.world import make_cer, run_requests

PROP_ID = "C10"
LEVEL = "exploration"
RULE = (
    "one case = one seeded (expression, package table, entry point, flags, resolver flavour, latency profile, optional "
    "missing package) executed once under the simulated loop; non-trivial iff at least two package look-ups were in "
    "flight together and completed in an order different from their start order, or a look-up failed (F4) while "
    "others were in flight; distinct = distinct event-log digests among the non-trivial cases"
)
PACKAGE = re.compile(r"\[\s*(\d+P)\s*(\d+\.\.\d+)?\s*\]")
TIME = {"[UB1]": "[932]", "[UB2]": "[934]", "[UB3]": "([932][492]X[934][493])"}


def substitute(expression, table, packages, time_conditions):
    """the statement of the property, literally: one non-rescanning pass per abbreviation kind"""
    text = expression
    if packages:
        text = PACKAGE.sub(lambda m: f"({table[m.group(1)]})", text)
    if time_conditions:
        text = re.sub(r"\[\s*(UB[123])\s*\]", lambda m: TIME[f"[{m.group(1)}]"], text)
    return text


async def do_op(sim, request):
    from ahbicht.expressions.expression_resolver import (
        expand_packages,
        expand_time_conditions,
        parse_expression_including_unresolved_subexpressions,
    )

    op = request["op"]
    if op["entry"] == "resolve":
        return await parse_expression_including_unresolved_subexpressions(
            op["expr"], resolve_packages=op["packages"], replace_time_conditions=op["time"]
        )
    tree = await parse_expression_including_unresolved_subexpressions(
        op["expr"], resolve_packages=False, replace_time_conditions=False
    )
    if op["entry"] == "expand_packages":
        return await expand_packages(tree)
    if op["entry"] == "expand_time":
        return expand_time_conditions(tree)
    raise ValueError(op["entry"])


async def _parse_only(sim, request):
    from ahbicht.expressions.expression_resolver import parse_expression_including_unresolved_subexpressions

    return await parse_expression_including_unresolved_subexpressions(
        request["op"]["expr"], resolve_packages=False, replace_time_conditions=False
    )


def _reference(scenario, rid, substituted):
    request = dict(next(r for r in scenario["requests"] if r["rid"] == rid), op={"expr": substituted})
    request.pop("fault", None)
    request.pop("start", None)
    solo = dict(scenario, profile="zero", decisions={}, decisions_closed=False, requests=[request])
    solo.pop("_with_log", None)
    _, outcomes = run_requests(solo, _parse_only)
    return strip_msg(outcomes[request["rid"]])


def flags_of(op):
    if op["entry"] == "resolve":
        return op["packages"], op["time"]
    return op["entry"] == "expand_packages", op["entry"] == "expand_time"


# --------------------------------------------------------------------------------------------------- generation
def _gen_request(rnd, rid, cond_keys, package_keys, max_depth=4):
    table = {}
    for key in package_keys:
        ast = gen_wellformed(rnd, rnd.randint(0, 2), cond_keys, package_keys, p_pkg=0.15, p_ub=0.2)
        table[key] = render(ast, rnd, "upper")
    is_ahb = rnd.random() < 0.45
    depth = rnd.randint(1, max_depth)
    if is_ahb:
        roll = rnd.random()
        if roll < 0.25:
            parts = [(rnd.choice(["X", "O", "U"]), gen_wellformed(rnd, depth, cond_keys, package_keys))]
        else:
            parts = [
                (rnd.choice(["MUSS", "SOLL", "KANN"]), gen_wellformed(rnd, depth - (1 if i else 0), cond_keys, package_keys))
                for i in range(rnd.choice([1, 1, 2, 3]))
            ]
            if rnd.random() < 0.15:
                parts.append((rnd.choice(["MUSS", "KANN"]), None))
        expr = render_ahb(parts, rnd, "upper")
        op = {"parts": parts, "expr": expr}
    else:
        ast = gen_wellformed(rnd, depth, cond_keys, package_keys, p_pkg=0.5)
        op = {"ast": ast, "expr": render(ast, rnd, "wild")}
    entry = rnd.choice(["resolve", "resolve", "resolve", "expand_packages", "expand_time"])
    op["entry"] = entry
    if entry == "resolve":
        op["packages"], op["time"] = rnd.choice([(True, True), (True, True), (True, False), (False, True)])
    used_keys = list(dict.fromkeys(k for k, _ in PACKAGE.findall(op["expr"])))
    missing = None
    if used_keys and rnd.random() < 0.25:
        missing = rnd.choice(used_keys)
    cer_packages = {k: v for k, v in table.items() if k != missing}
    return {"rid": rid, "op": op, "cer": make_cer(rid, packages=cer_packages), "missing": missing}


def generate(seed, tier="quick"):
    rnd = rng(seed, "c10")
    cond_keys = [str(k) for k in rnd.sample(range(1, 1000), rnd.randint(2, 6))] + [str(rnd.randint(2000, 2499))]
    package_keys = [f"{k}P" for k in rnd.sample(range(1, 1000), rnd.randint(2, 5))]
    if rnd.random() < 0.1:  # INT allows leading zeros and zero
        cond_keys.append(rnd.choice(["007", "0932", "0042"]))
        package_keys.append(rnd.choice(["01P", "0P", "0010P"]))
    big = tier == "thorough" and seed % 4 == 0  # deeper bounds for a quarter of the thorough runs
    n_requests = rnd.choice([2, 3, 4, 5] if big else [1, 1, 1, 2, 2, 3])
    requests = [_gen_request(rnd, f"r{i}", cond_keys, package_keys, 6 if big else 4) for i in range(n_requests)]
    # the same process serves several callers with *different* package tables: one after the other, or at once
    sequential = rnd.random() < 0.5
    for index, request in enumerate(requests):
        request["start"] = index * 1_000_000 if sequential else rnd.choice([0, 0, 1, 3])
        if index and rnd.random() < 0.4:  # same expression, other table
            request["op"] = clone(requests[0]["op"])
            used = list(dict.fromkeys(k for k, _ in PACKAGE.findall(request["op"]["expr"])))
            request["missing"] = next((k for k in used if k not in request["cer"]["packages"]), None)
        if index and not sequential and rnd.random() < 0.25:
            # a concurrent caller that is cancelled while its look-ups are in flight (F3); not observed itself
            request["fault"] = {"kind": "cancel", "at": rnd.choice([0, 1, 2, 3, 10])}
    world = {"flavour": "cer" if rnd.random() < 0.3 else "sim", "rc_keys": [], "fc_keys": [], "hint_keys": []}
    if rnd.random() < 0.25:
        # the shipped DictBasedPackageResolver, built once from one table: every caller of the process shares it
        world["flavour"] = "dict"
        for request in requests[1:]:
            request["cer"] = clone(requests[0]["cer"])
            request["cer"]["hints"] = {}
            used = list(dict.fromkeys(k for k, _ in PACKAGE.findall(request["op"]["expr"])))
            request["missing"] = next((k for k in used if k not in request["cer"]["packages"]), None)
        world["dict_cer"] = clone(requests[0]["cer"])
        world["json_files"] = rnd.random() < 0.5  # JsonFilePackageResolver instead of DictBasedPackageResolver
    profile = rnd.choice([p for p in PROFILES if p != "zero"] * 3 + ["zero"])
    return {"property": PROP_ID, "seed": seed, "profile": profile, "world": world, "requests": requests}


def summarise(scenario):
    out = {"seed": scenario["seed"], "profile": scenario["profile"], "flavour": scenario["world"]["flavour"], "requests": []}
    for request in scenario["requests"]:
        op = request["op"]
        out["requests"].append({
            "rid": request["rid"],
            "start": request.get("start", 0),
            "entry": {k: op[k] for k in ("entry", "packages", "time") if k in op},
            "expr": op["expr"],
            "packages": request["cer"]["packages"],
            "missing": request.get("missing"),
        })
    return out


# ------------------------------------------------------------------------------------------------------ oracle
def execute(scenario):
    plans = {}
    observed = [r for r in scenario["requests"] if not r.get("fault")]
    for request in observed:
        op = request["op"]
        do_packages, do_time = flags_of(op)
        used = list(dict.fromkeys(k for k, _ in PACKAGE.findall(op["expr"])))
        available = request["cer"]["packages"]
        expect_missing = do_packages and any(k not in available for k in used)
        reference, substituted = None, None
        # "all well-formed expressions": whether the abbreviated text is one is the parser's decision (a key range check
        # while reading, for instance) - taken by the code under test itself, flags off, in a pristine process
        abbreviated = pristine(_reference, scenario, request["rid"], op["expr"])
        if "ok" not in abbreviated:
            plans[request["rid"]] = ("rejected", abbreviated, None, used, available)
            continue
        if not expect_missing:
            substituted = substitute(op["expr"], available, do_packages, do_time)
            reference = pristine(_reference, scenario, request["rid"], substituted)
            # (if the library rejects the substituted text, it must reject the abbreviated one as well)
        plans[request["rid"]] = (expect_missing, reference, substituted, used, available)
    try:
        sim, outcomes = run_requests(scenario, do_op)
    except LIVENESS_ERRORS as error:
        return liveness_verdict(error, scenario)
    verdict = base_verdict(sim, scenario)
    verdict["observed"] = len(observed)
    verdict["completed"] = sum(1 for r in observed if "ok" in outcomes.get(r["rid"], {}))
    n_lookups = sum(1 for entry in sim.log if entry[2] == "start" and entry[4] == "pkg")
    verdict["probes"]["package_lookups"] = n_lookups
    verdict["probes"]["requests"] = len(scenario["requests"])
    for request in observed:
        rid, op = request["rid"], request["op"]
        expect_missing, reference, substituted, used, available = plans[rid]
        outcome = strip_msg(outcomes.get(rid, {"missing": True}))
        if expect_missing == "rejected":
            # outside the quantifier; the only demand is that resolving rejects it as parsing does
            verdict["probes"]["not_wellformed_for_the_parser"] = verdict["probes"].get(
                "not_wellformed_for_the_parser", 0) + 1
            if "exc" not in outcome or not is_exception(outcome, reference["exc"]):
                fail(
                    verdict,
                    "rejected-expression-resolved",
                    f"{rid}: parsing {op['expr']!r} alone ends in {dumps(reference)[:300]}, resolving it in "
                    f"{dumps(outcome)[:300]}",
                )
            continue
        if expect_missing:
            sim.count_fault("F4_unknown_package")
            verdict["faults"] = dict(sim.fault_counts)
            verdict["nontrivial"] = verdict["nontrivial"] or n_lookups >= 2
            if not is_exception(outcome, "NotImplementedError"):
                fail(
                    verdict,
                    "unknown-package-not-reported",
                    f"{rid}: {op['expr']} with table {available} (missing {[k for k in used if k not in available]}): "
                    f"expected NotImplementedError, got {dumps(outcome)[:500]}",
                )
            continue
        if "exc" in reference and "exc" in outcome:
            # the parser rejects the substituted text (a package expression that is not well-formed for it): resolving
            # must reject as well - as which error, and wrapped by which visitor, the statement leaves open
            verdict["probes"]["substituted_text_rejected"] = verdict["probes"].get("substituted_text_rejected", 0) + 1
            continue
        if outcome != reference:
            fail(
                verdict,
                f"tree-differs-from-textual-substitution:{op['entry']}",
                f"{rid}: {op['expr']!r} with {available}: got {dumps(outcome)[:600]} expected tree of "
                f"{substituted!r} = {dumps(reference)[:600]}",
            )
    return verdict


# ------------------------------------------------------------------------------------------------------ shrink
def size(scenario):
    total = 5 * len(scenario["requests"])
    for request in scenario["requests"]:
        op = request["op"]
        total += ast_size(to_tuple(op["ast"])) if op.get("ast") else 0
        total += sum(ast_size(to_tuple(a)) for _, a in op.get("parts", []) if a)
        total += len(request["cer"]["packages"])
    total += sum(1 for v in (scenario.get("decisions") or {}).values() if v[0] != "n")
    return total


def _with_op(scenario, index, op):
    candidate = clone(scenario)
    candidate["requests"][index]["op"] = op
    return candidate


def shrink(scenario):
    """
    candidates stay scenarios generate() could have made: with the shipped Dict / JsonFile resolvers one table serves
    every caller of the process, so an edit of one request's table is an edit of all of them and of the resolver's
    """
    for candidate in _shrink(scenario):
        if candidate["world"].get("flavour") == "dict" and candidate["requests"]:
            before = scenario["world"]["dict_cer"]["packages"]
            tables = [r["cer"]["packages"] for r in candidate["requests"]]
            table = next((t for t in tables if t != before), tables[0])
            for request in candidate["requests"]:
                request["cer"]["packages"] = clone(table)
            candidate["world"] = dict(candidate["world"], dict_cer=clone(candidate["requests"][0]["cer"]))
        yield candidate


def _shrink(scenario):
    requests = scenario["requests"]
    if len(requests) > 1:
        for index in range(len(requests)):
            candidate = clone(scenario)
            del candidate["requests"][index]
            yield candidate
    for index, request in enumerate(requests):
        if request.get("start"):
            candidate = clone(scenario)
            candidate["requests"][index]["start"] = 0
            yield candidate
        if request.get("fault"):
            candidate = clone(scenario)
            del candidate["requests"][index]["fault"]
            yield candidate
        op = request["op"]
        if op.get("ast"):
            for smaller in shrink_ast(to_tuple(op["ast"])):
                yield _with_op(scenario, index, dict(op, ast=smaller, expr=render(smaller)))
        if op.get("parts"):
            parts = [(i, to_tuple(a)) for i, a in op["parts"]]
            if len(parts) > 1:
                for drop in range(len(parts)):
                    remaining = parts[:drop] + parts[drop + 1 :]
                    if any(a is None for _, a in remaining[:-1]) or (len(remaining) == 1 and remaining[0][1] is None):
                        continue
                    yield _with_op(scenario, index, dict(op, parts=remaining, expr=render_ahb(remaining)))
            for pindex, (indicator, ast) in enumerate(parts):
                if ast is None:
                    continue
                for smaller in shrink_ast(ast):
                    new_parts = parts[:pindex] + [(indicator, smaller)] + parts[pindex + 1 :]
                    yield _with_op(scenario, index, dict(op, parts=new_parts, expr=render_ahb(new_parts)))
        # simpler package expressions
        packages = request["cer"]["packages"]
        used = set(k for k, _ in PACKAGE.findall(op["expr"]))
        for key in list(packages):
            if key not in used:
                candidate = clone(scenario)
                del candidate["requests"][index]["cer"]["packages"][key]
                yield candidate
            elif packages[key] not in ("[1]", "[2]"):
                candidate = clone(scenario)
                candidate["requests"][index]["cer"]["packages"][key] = "[1]" if index % 2 == 0 else "[2]"
                yield candidate
    if scenario["world"].get("flavour") == "cer":
        yield dict(scenario, world=dict(scenario["world"], flavour="sim"))
    yield from shrink_decisions(scenario)
