"""
C16 - an invalid expression makes one node optional and never aborts validation.

Fault: a well-formed but invalid expression planted at a node (segment group, segment, free-text element, value-pool
entry). Seeds enumerate, per generated AHB, every single position (seed % VARIANTS selects the position) and then
sampled pairs/triples, each under a PRF-chosen latency profile - the fault is an exception derived from BaseException
raised inside one of many gathered children at a moment the scheduler controls.
Oracle: differential against the same AHB with every planted expression replaced by 'Kann', validated alone in a
pristine process with non-yielding peers.
"""

from sim import env  # noqa: F401
from sim.canon import dumps
from sim.gen_ahb import attribute_items, walk
from sim.gen_expr import gen_invalid, gen_valid, render
from sim.prf import PROFILES, rng
from sim.props.ahbcommon import (
    ahb_size,
    compact,
    do_validate,
    evaluate_expressions_alone,
    gen_expression_pool,
    gen_validation_ahb,
    gen_world,
    second_validation,
    shrink_validation,
    widen,
)
from sim.props.common import LIVENESS_ERRORS, base_verdict, clone, fail, is_exception, liveness_verdict, strip_msg
from sim.runner import pristine
from sim.world import run_requests

PROP_ID = "C16"
LEVEL = "fault_enumeration"
VARIANTS = 24
RULE = (
    "AHBs are generated from seed // 24; seed % 24 enumerates the fault positions of that AHB in document order (every "
    "segment group, segment, free-text element and value-pool entry; one planted invalid expression each, family drawn "
    "from 10 invalid-expression families incl. an invalid part among several modal-mark parts, an invalid composition "
    "hidden inside a package, a package as operand), indices beyond the "
    "number of positions plant 2-3 faults at sampled positions; 6 % of the cases with at least five positions plant "
    "5 up to all positions at once (half of them: every position of the AHB); each case runs once under a PRF-chosen latency profile. "
    "non-trivial iff at least one planted node was actually reached (reported, i.e. not pruned below a forbidden "
    "parent; for value-pool entries: the pool has several entries and was evaluated); distinct = distinct "
    "(AHB, planted set, event log) digests among those"
)

do_op = do_validate


def positions_of(ahb):
    """[index of the node in document order, index of the pool entry or None]: discriminators may repeat"""
    out = []
    for number, (node, _) in enumerate(walk(ahb)):
        if node["t"] == "p":
            for index in range(len(node["pool"])):
                out.append([number, index])
        else:
            out.append([number, None])
    return out


def _holder(ahb, position):
    nodes = [node for node, _ in walk(ahb)]
    node = nodes[position[0]]
    return node if position[1] is None else node["pool"][position[1]]


def with_kann(ahb, planted):
    replaced = clone(ahb)
    for plant in planted:
        _holder(replaced, plant["at"])["e"] = "Kann"
    return replaced


def _alone(scenario, ahb, rid="r0"):
    request = dict(next(r for r in scenario["requests"] if r["rid"] == rid))
    request.pop("start", None)
    request["op"] = dict(request["op"], ahb=ahb)
    solo = dict(scenario, profile="zero", decisions={}, decisions_closed=False, requests=[request])
    solo.pop("_with_log", None)
    _, outcomes = run_requests(solo, do_op)
    return strip_msg(outcomes[request["rid"]])


# --------------------------------------------------------------------------------------------------- generation
def _gen_planted_expression(rnd, universe, cer):
    rc, hints, fcs, package_kinds = universe
    ast, family = gen_invalid(rnd, rc, hints, fcs)
    text = render(ast, rnd, rnd.choice(["plain", "symbol"]))
    roll = rnd.random()
    if roll < 0.12:
        # the invalid composition sits inside a package: the node's own expression looks harmless
        key = f"{880 + len(cer['packages'])}P"
        cer["packages"][key] = text
        family = "invalid_inside_package:" + family
        if rnd.random() < 0.5:
            text = f"[{key}]"
        else:
            text = f"[{rnd.choice(rc)}] U [{key}{rnd.choice(['', '1..3'])}]"
    elif roll < 0.22 and package_kinds and hints:
        # an operand of the invalid composition is a package (which expands to requirement constraints)
        text = f"[{rnd.choice(sorted(package_kinds))}] {rnd.choice(['O', 'X'])} [{rnd.choice(hints)}]"
        family = "package_or_hint"
    roll = rnd.random()
    indicator = rnd.choice(["Muss", "Soll", "Kann", "M", "K"])
    if roll < 0.55:
        return f"{rnd.choice([indicator, 'X', 'X'])} {text}", family
    valid, _ = gen_valid(rnd, rnd.randint(0, 1), rc, hints, fcs, want=("rc",))
    valid_text = render(valid)
    other = rnd.choice(["Muss", "Soll", "Kann"])
    if roll < 0.75:  # invalid part first, a valid part after it
        return f"{indicator} {text} {other} {valid_text}", family + "+valid-part-after"
    if roll < 0.95:  # a valid part (possibly fulfilled) before the invalid one
        return f"{other} {valid_text} {indicator} {text}", family + "+valid-part-before"
    return f"{other} {valid_text} {indicator} {text} {rnd.choice(['Kann', 'K'])}", family + "+between"


def generate(seed, tier="quick"):
    ahb_seed, variant = divmod(seed, VARIANTS)
    rnd = rng(ahb_seed, "c16-ahb")
    world, cer, universe = gen_world(rnd, p_unknown_run=0.05, n_hint=(1, 2), n_fc=(1, 2))
    pool = gen_expression_pool(rnd, universe, size=(2, 5), depth=(0, 1), max_parts=2)
    big = tier == "thorough" and ahb_seed % 4 == 0  # larger AHBs (more positions than variants: sampled there)
    ahb = gen_validation_ahb(
        rnd, pool, n_roots=(2, 3) if big else (1, 2), depth=rnd.choice([1, 2, 3] if big else [0, 1, 1, 2]), p_pool=0.35,
        n_segments=(1, 3) if big else (1, 2), n_des=(0, 3), fanout=(0, 2),
    )
    if rnd.random() < 0.05:
        ahb = widen(rnd, ahb, pool)  # the planted fault sits among (or is one of) more than ten siblings
    if rnd.random() < 0.1:
        # repeated lines: two nodes with the same discriminator (one of them may be the faulty one)
        nodes = [n for n, _ in walk(ahb)]
        if len(nodes) >= 2:
            donor, receiver = rnd.sample(nodes, 2)
            receiver["d"] = donor["d"]
    positions = positions_of(ahb)
    rnd = rng(seed, "c16-fault")
    if len(positions) > VARIANTS:
        # a widened AHB: every variant samples a single position or a small subset
        chosen = sorted(rnd.sample(positions, rnd.choice([1, 1, 2, 3])), key=positions.index)
    elif big and len(positions) > VARIANTS // 2:
        # more positions than variants: the first half of the variants samples single positions, the rest subsets
        if variant < VARIANTS // 2:
            chosen = [positions[(variant * len(positions)) // (VARIANTS // 2)]]
        else:
            count = min(len(positions), rnd.choice([2, 2, 3, 4]))
            chosen = sorted(rnd.sample(positions, count), key=positions.index)
    elif variant < len(positions):
        chosen = [positions[variant]]
    else:
        count = min(len(positions), rnd.choice([2, 2, 3]))
        chosen = sorted(rnd.sample(positions, count), key=positions.index)
    mass = rng(seed, "c16-mass")
    if mass.random() < 0.06 and len(positions) >= 5:
        # "all subsets of nodes": many simultaneous faults, up to every node of the AHB (the other variants plant at
        # most four) - a handler that leaks something per fault (a slot, a lock, a counter) needs many of them in one
        # run; an own PRF stream, so that the scenarios of all other seeds stay what they were
        count = mass.choice([len(positions), len(positions), mass.randint(5, len(positions)), mass.randint(5, len(positions))])
        chosen = sorted(mass.sample(positions, count), key=positions.index)
    planted = []
    for position in chosen:
        expression, family = _gen_planted_expression(rnd, universe, cer)
        _holder(ahb, position)["e"] = expression
        planted.append({"at": position, "d": [n for n, _ in walk(ahb)][position[0]]["d"], "expr": expression,
                        "family": family})
    profile = rnd.choice([p for p in PROFILES if p != "zero"] * 3 + ["zero"])
    request = {
        "rid": "r0",
        "cer": cer,
        "op": {"entry": "deep", "ahb": ahb, "soll": rnd.random() < 0.7, "planted": planted},
    }
    requests = [request]
    if rnd.random() < 0.2:
        requests.append(second_validation(rnd, request))
    return {"property": PROP_ID, "seed": seed, "profile": profile, "world": world, "requests": requests}


def summarise(scenario):
    op = scenario["requests"][0]["op"]
    return {
        "seed": scenario["seed"],
        "profile": scenario["profile"],
        "planted": op["planted"],
        "soll_is_required": op["soll"],
        "requirement_constraints": scenario["requests"][0]["cer"]["requirement_constraints"],
        "ahb": compact(op["ahb"]),
    }


size = ahb_size


def shrink(scenario):
    if len(scenario["requests"]) > 1:
        for index in range(len(scenario["requests"])):
            candidate = clone(scenario)
            del candidate["requests"][index]
            yield candidate
        for index, request in enumerate(scenario["requests"]):
            if request.get("start"):
                candidate = clone(scenario)
                candidate["requests"][index]["start"] = 0
                yield candidate
            if request.get("fault"):
                candidate = clone(scenario)
                del candidate["requests"][index]["fault"]
                yield candidate
        for candidate in shrink(dict(scenario, requests=[scenario["requests"][0]])):
            first = candidate["requests"][0]
            others = []
            for other in scenario["requests"][1:]:
                other = clone(other)
                other["op"]["ahb"] = clone(first["op"]["ahb"])
                other["op"]["planted"] = clone(first["op"]["planted"])
                others.append(other)
            yield dict(candidate, requests=[first] + others)
        return
    op = scenario["requests"][0]["op"]
    planted = op["planted"]
    if len(planted) > 1:
        for drop in range(len(planted)):
            candidate = clone(scenario)
            cop = candidate["requests"][0]["op"]
            _holder(cop["ahb"], planted[drop]["at"])["e"] = "Kann"
            del cop["planted"][drop]
            yield candidate
    for candidate in shrink_validation(scenario):
        cop = candidate["requests"][0]["op"]
        relocated, used = [], set()
        for plant in cop["planted"]:
            found = None
            for position in positions_of(cop["ahb"]):
                if tuple(position) not in used and _holder(cop["ahb"], position)["e"] == plant["expr"]:
                    found = position
                    break
            if found is None:
                break
            used.add(tuple(found))
            relocated.append(dict(plant, at=found))
        else:
            cop["planted"] = relocated
            yield candidate


# ------------------------------------------------------------------------------------------------------ oracle
def execute(scenario):
    references, reasons = {}, {}
    observed = [r for r in scenario["requests"] if not r.get("fault")]
    for request in observed:
        op = request["op"]
        references[request["rid"]] = pristine(_alone, scenario, with_kann(op["ahb"], op["planted"]), request["rid"])
        reasons[request["rid"]] = pristine(
            evaluate_expressions_alone, scenario, [p["expr"] for p in op["planted"]], request["rid"]
        )
    try:
        sim, outcomes = run_requests(scenario, do_op)
    except LIVENESS_ERRORS as error:
        return liveness_verdict(error, scenario)
    verdict = base_verdict(sim, scenario)
    verdict["observed"] = len(observed)
    verdict["completed"] = sum(1 for r in observed if "ok" in outcomes.get(r["rid"], {}))
    verdict["nontrivial"] = False
    verdict["probes"]["validations"] = len(scenario["requests"])
    for request in observed:
        rid = request["rid"]
        _judge(request, strip_msg(outcomes.get(rid, {"missing": True})), references[rid], reasons[rid], verdict)
    return verdict


def _bump(verdict, name, count=1):
    verdict["probes"][name] = verdict["probes"].get(name, 0) + count


def _judge(request, outcome, reference, reasons, verdict):
    op = request["op"]
    planted = op["planted"]
    nodes = [n for n, _ in walk(op["ahb"])]
    families = sorted({p["family"] for p in planted})
    _bump(verdict, f"planted_{len(planted)}" if len(planted) < 5 else "planted_5_or_more")
    if len(planted) >= 8:
        _bump(verdict, "planted_8_or_more")
    if len(planted) == len(positions_of(op["ahb"])):
        _bump(verdict, "planted_at_every_position")
    # the planted expressions are invalid by construction (structural criterion, sim/gen_expr.gen_invalid); the
    # reason text is what the real evaluation of the expression alone reports - if that evaluation does not even
    # notice the invalidity, only "optional with a non-empty hint" can be demanded of the node
    known_reason = {
        p["expr"]: (reasons[p["expr"]][1] if reasons.get(p["expr"], [None])[0] == "INVALID" else None) for p in planted
    }
    if "ok" not in reference:
        # the 'Kann' AHB itself ends in an exception (UNKNOWN on a MUSS node): the faulty AHB must end the same way
        if "exc" not in outcome or not is_exception(outcome, reference.get("exc")):
            fail(verdict, "outcome-differs-from-kann-replacement",
                 f"planted {planted}: outcome {dumps(outcome)[:400]}, with 'Kann' instead: {dumps(reference)[:400]}")
        return
    if "ok" not in outcome:
        fail(
            verdict,
            f"validation-aborted:{nodes[planted[0]['at'][0]]['t']}",
            f"planted {planted} (families {families}): validation ended with {dumps(outcome)[:300]} although the AHB "
            f"with 'Kann' instead validates fine",
        )
        return
    got, expected = outcome["ok"], reference["ok"]
    if [i["discriminator"] for i in got] != [i["discriminator"] for i in expected]:
        fail(
            verdict,
            "reported-nodes-differ-from-kann-replacement",
            f"planted {planted}: reported {[i['discriminator'] for i in got]}, with 'Kann' instead "
            f"{[i['discriminator'] for i in expected]}",
        )
        return
    planted_nodes = {p["at"][0]: p for p in planted if p["at"][1] is None}
    planted_entries = {p["at"][0] for p in planted if p["at"][1] is not None}
    reached = 0
    # which node an item belongs to: by position in the document order, not by name (discriminators may repeat, and
    # the first bearer of a name may be below a forbidden parent and missing from the report). The positions are
    # those of the 'Kann' run's report - the two reports name the same nodes in the same order (just checked), and
    # what the run under test says about the planted node must not decide which node is taken for it
    positions = attribute_items(op["ahb"], expected)
    if positions is None:
        # the report of the 'Kann' AHB itself does not cover the tree the way C13 states it - that is C13's to
        # judge, and without knowing which item is the planted node nothing can be said here
        _bump(verdict, "report_does_not_fit_tree")
        return
    for item, reference_item, number in zip(got, expected, positions):
        discriminator = item["discriminator"]
        kind = nodes[number]["t"] if number is not None else "?"
        result = item["validation_result"]
        if number in planted_nodes:
            reached += 1
            plant = planted_nodes[number]
            status = result["requirement_validation"].split(".")[-1]
            if not status.startswith("IS_OPTIONAL"):
                fail(verdict, f"planted-node-not-optional:{kind}",
                     f"node {discriminator} with invalid expression {plant['expr']!r} is reported {status}")
            elif not result.get("hints") or (
                known_reason[plant["expr"]] is not None and known_reason[plant["expr"]] not in result["hints"]
            ):
                fail(verdict, f"planted-node-without-reason:{kind}",
                     f"node {discriminator} with invalid expression {plant['expr']!r}: hints {result.get('hints')!r}, "
                     f"the reason evaluation gives is {known_reason[plant['expr']]!r}")
            continue
        if number in planted_entries:
            if len(nodes[number]["pool"]) > 1:
                reached += 1
        differs = item != reference_item
        if differs and number in planted_entries and isinstance(result, dict):
            # the pool that owns the invalid entry is the faulty node itself: what the statement fixes for it is that
            # the entry is treated as selectable (offered values, status, format verdict) - its hint text may say
            # more than the hint of the 'Kann' run (the reason, for instance)
            other = reference_item["validation_result"]
            differs = not isinstance(other, dict) or (
                {k: v for k, v in result.items() if k != "hints"} != {k: v for k, v in other.items() if k != "hints"}
                or item["discriminator"] != reference_item["discriminator"]
            )
        if differs:
            where = "pool-with-planted-entry" if number in planted_entries else f"other-node:{kind}"
            fail(
                verdict,
                f"differs-from-kann-replacement:{where}",
                f"planted {planted}: node {discriminator} is {dumps(result)[:500]}, with 'Kann' instead it is "
                f"{dumps(reference_item['validation_result'])[:500]}",
            )
    _bump(verdict, "planted_reached", reached)
    _bump(verdict, "planted_pruned", len(planted) - reached)
    verdict["nontrivial"] = verdict["nontrivial"] or reached > 0
    for plant in planted:
        where = nodes[plant["at"][0]]["t"] + ("-entry" if plant["at"][1] is not None else "")
        _bump(verdict, f"position_{where}")
        _bump(verdict, f"family_{plant['family'].split('+')[0].split(':')[0]}")
        if "+" in plant["family"]:
            _bump(verdict, "family_multi_part")
    verdict["faults"]["F5_invalid_expression"] = verdict["faults"].get("F5_invalid_expression", 0) + reached
