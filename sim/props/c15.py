"""
C15 - each data element's format constraints see only that element's own input.

Workload: validation of AHBs rich in free-text elements (2-12, across segments and groups) with pairwise distinct
inputs; every element owns its format-constraint keys, the format-constraint stub's verdict and message are functions
of the text it is handed; requirement evaluators yield, so that the text is read long after sibling elements ran.
Optionally a second validation runs concurrently in the same loop (and may be cancelled: F3).
Oracle: (1) every reported free-text element equals validate_data_element_freetext(element, status of its segment)
run alone, as its own task, in a pristine process with non-yielding peers; (2) evaluator-side record: every
format-constraint call made with a key owned by element e saw exactly e's entered input.
"""

from sim import env  # noqa: F401
from sim.canon import Pre, canon, dumps
from sim.gen_ahb import attribute_items, build_node, walk
from sim.gen_expr import FORBIDDEN_FC, gen_valid, render
from sim.prf import PROFILES, rng
from sim.props.ahbcommon import (
    ahb_size,
    compact,
    do_validate,
    gen_expression_pool,
    gen_validation_ahb,
    gen_world,
    shrink_validation,
)
from sim.props.common import LIVENESS_ERRORS, base_verdict, clone, fail, is_exception, liveness_verdict, strip_msg
from sim.runner import pristine
from sim.world import describe_exception, run_requests

PROP_ID = "C15"
LEVEL = "exploration"
RULE = (
    "one case = one seeded scenario (1-2 concurrent validations of AHBs with 2-12 free-text elements carrying pairwise "
    "distinct inputs and their own format-constraint keys, yielding requirement evaluators, latency profile, optional "
    "cancellation of the sibling validation) executed once under the simulated loop; non-trivial iff at least two "
    "free-text elements with format constraints were evaluated and at least one pair of evaluator calls in flight "
    "together completed out of start order; distinct = distinct event-log digests among those"
)

async def do_op(sim, request):
    if request.get("preset_text") is not None:
        # the caller's own context already holds a text (it validated a single field before, or set the variable by
        # hand as the docstring of the variable suggests for evaluations outside validation)
        from ahbicht.content_evaluation.fc_evaluators import text_to_be_evaluated_by_format_constraint

        text_to_be_evaluated_by_format_constraint.set(request["preset_text"])
    return await do_validate(sim, request)


def expected_fc_result(key, text):
    """what the format-constraint stub answers for (key, text) in text mode (sim/world.py Sim.fc_value)"""
    from sim.prf import prf

    fulfilled = prf("fc", key, text) % 2 == 0
    return fulfilled, None if fulfilled else f"E{key}|{text!r}"


async def _alone(sim, request):
    """every element on its own, as its own task (fresh context copy), for both possible segment statuses"""
    import asyncio

    from ahbicht.models.validation_values import RequirementValidationValue
    from ahbicht.validation.validation import validate_data_element_freetext

    out = {}
    for position, element in request["elements"]:
        for status in ("IS_REQUIRED", "IS_OPTIONAL"):
            task = asyncio.get_running_loop().create_task(
                validate_data_element_freetext(
                    build_node(element), RequirementValidationValue(status), soll_is_required=request["op"]["soll"]
                )
            )
            try:
                out[f"{position}|{status}"] = {"ok": canon((await task).validation_result)}
            except (KeyboardInterrupt, SystemExit):
                raise
            except BaseException as exc:  # pylint:disable=broad-except
                out[f"{position}|{status}"] = describe_exception(exc)
    return Pre(out)


def _references(scenario, rid):
    request = next(r for r in scenario["requests"] if r["rid"] == rid)
    elements = [[i, n] for i, (n, _) in enumerate(walk(request["op"]["ahb"])) if n["t"] == "f"]
    solo_request = {k: v for k, v in request.items() if k not in ("fault", "start")}
    solo_request["elements"] = elements
    solo = dict(scenario, profile="zero", decisions={}, decisions_closed=False, requests=[solo_request])
    solo.pop("_with_log", None)
    _, outcomes = run_requests(solo, _alone)
    outcome = outcomes[rid]
    if "ok" not in outcome:
        raise RuntimeError(f"reference validation failed: {outcome}")
    return outcome["ok"]


# --------------------------------------------------------------------------------------------------- generation
def _gen_request(rnd, rid, world, cer_template, universe, fc_owner_pool, big=False):
    rc, hints, _, package_kinds = universe
    shared_fcs = world["fc_keys"][:2]
    pool = gen_expression_pool(rnd, (rc, hints, shared_fcs, package_kinds), size=(2, 5), depth=(0, 1), max_parts=2)
    owners = {}
    extra_packages = {}

    def free_expr_factory():
        return "X"  # replaced below, per element

    ahb = gen_validation_ahb(
        rnd,
        pool,
        n_roots=(2, 4) if big else (1, 2),
        depth=rnd.choice([1, 2, 3]) if big else rnd.choice([0, 1, 2]),
        p_pool=0.15,
        free_pool=[free_expr_factory()],
        free_inputs=lambda r, disc: r.choice(
            [f"txt-{rid}-{disc}"] * 5 + [None, "", f"  padded {rid}-{disc} ", f"{disc}\tx", f"LONG-{rid}-{disc}-" + "9" * 40]
        ),
        n_segments=(1, 3),
        n_des=(1, 4),
        fanout=(0, 2),
    )
    if rnd.random() < 0.05:  # a segment with more than ten free-text elements
        segments = [n for n, _ in walk(ahb) if n["t"] == "s"]
        if segments:
            wide = rnd.choice(segments)
            for number in range(rnd.randint(11, 18)):
                disc = f"Fw{number}-{wide['d']}"
                wide["des"].append({"t": "f", "d": disc, "e": "X", "input": f"txt-{rid}-{disc}"})
    elements = [n for n, _ in walk(ahb) if n["t"] == "f"]
    for element in elements:
        own = [fc_owner_pool.pop() for _ in range(rnd.choice([1, 1, 2]))] if len(fc_owner_pool) >= 2 else []
        if not own:
            element["e"] = "X"
            continue
        for key in own:
            owners[key] = element["d"]
        roll = rnd.random()
        fulfilled_rc = [k for k in rc if cer_template["requirement_constraints"].get(k) == "FULFILLED"]
        if roll < 0.3 and len(own) == 1:
            # the simplest shapes: the format constraint is certainly evaluated, and what the stub answers for this
            # element's own input is known without running any library code
            if fulfilled_rc and rnd.random() < 0.5:
                ast = ("ta", ("k", rnd.choice(fulfilled_rc)), ("k", own[0]))
            else:
                ast = ("k", own[0])
            element["expect_fc"] = own[0]
        elif roll < 0.4:
            ast = ("k", own[0]) if len(own) == 1 else (rnd.choice(["and", "or", "xor"]), ("k", own[0]), ("k", own[1]))
        else:
            base, _ = gen_valid(rnd, rnd.randint(0, 1), rc, hints, [], want=("rc", "rc", "hint"))
            ast = ("ta", base, ("k", own[0]))
            if len(own) == 2:
                second, _ = gen_valid(rnd, 0, rc, hints, [], want=("rc",))
                ast = (rnd.choice(["and", "or", "xor"]) if base[0] != "k" or int(base[1]) < 500 else "and",
                       ast, ("ta", second, ("k", own[1])))
        indicator = rnd.choice(["X", "Muss", "Muss", "Soll", "Kann"])
        element["e"] = f"{indicator} {render(ast)}"
        if rnd.random() < 0.12 and len(own) == 1:
            # the element's format constraint arrives only through a package: nothing in the expression text shows it
            pkey = f"{700 + len(extra_packages)}P"
            extra_packages[pkey] = rnd.choice([f"[{own[0]}]", f"[{rnd.choice(fulfilled_rc)}][{own[0]}]"] if fulfilled_rc
                                              else [f"[{own[0]}]"])
            element["e"] = f"{rnd.choice(['Muss', 'X', 'Kann'])} [{pkey}]"
            element["expect_fc"] = own[0]
        if rnd.random() < 0.1:
            # the shipped date format constraints (931-935, reached through UB1/UB2 or written literally): their
            # verdict is a function of the element's own datetime
            element["vt"] = "DATETIME"
            element["input"] = rnd.choice(["2022-12-31T23:00:00Z", "2022-12-31T05:00:00+00:00", "2023-06-30T22:00:00Z",
                                           "2023-06-30T04:00:00+00:00", "2022-05-05T12:00:00Z", "kein Datum"])
            constraint = rnd.choice(["[UB1]", "[UB2]", "[932]", "[934]", "[933]", "[931]"])
            element["e"] = rnd.choice([f"X {constraint}", f"Muss {constraint}",
                                       f"Muss [{rnd.choice(fulfilled_rc)}]{constraint}" if fulfilled_rc else f"X {constraint}"])
            element.pop("expect_fc", None)
            for key in [k for k, d in owners.items() if d == element["d"]]:
                del owners[key]
        elif rnd.random() < 0.1 and element["input"]:
            element["vt"] = "DATETIME"
            element["input"] = rnd.choice(["2022-12-31T23:00:00Z", "2023-03-26T22:00:00Z", "2021-01-01T05:00:00+00:00",
                                           "2022-06-30T22:00:00Z"])
    # some elements carry the *same* expression (same format-constraint keys) as an earlier one, with another input:
    # anything remembered per key or per expression shows up here; such keys have no single owner (oracle 1 only)
    for index, element in enumerate(elements):
        if index and rnd.random() < 0.3:
            donor = elements[rnd.randrange(index)]
            if donor["e"] != "X":
                for key in [k for k, d in owners.items() if d == element["d"]]:
                    del owners[key]
                element["e"] = donor["e"]
                element.pop("expect_fc", None)
                if donor.get("expect_fc"):
                    element["expect_fc"] = donor["expect_fc"]  # same expression, judged against this element's input
                for key in [k for k, d in owners.items() if d == donor["d"]]:
                    owners[key] = None
                # repeated lines of one segment often carry the very same discriminator, too
                same_segment = any(
                    n["t"] == "s" and element in n["des"] and donor in n["des"] for n, _ in walk(ahb)
                )
                if same_segment and rnd.random() < 0.6:
                    element["d"] = donor["d"]
    op = {"entry": "deep", "ahb": ahb, "soll": rnd.random() < 0.8}
    if len(ahb["lines"]) == 1 and rnd.random() < 0.2:
        op["entry"] = "level"  # validate_segment_level on the only root group
    return {"rid": rid, "start": 0,
            "cer": dict(cer_template, hints={k: f"H{k}@{rid}" for k in hints},
                        packages=dict(cer_template.get("packages") or {}, **extra_packages)), "op": op,
            "owners": owners, "preset_text": "stale text of the caller" if rnd.random() < 0.35 else None}


def generate(seed, tier="quick"):
    rnd = rng(seed, "c15")
    world, cer, universe = gen_world(rnd, n_fc=(2, 3), p_unknown_run=0.05, fc_mode="text")
    rc = universe[0]
    for key in rc:  # mostly fulfilled, so that the attached format constraints are reached
        if cer["requirement_constraints"][key] == "UNFULFILLED" and rnd.random() < 0.6:
            cer["requirement_constraints"][key] = "FULFILLED"
    owner_pool = [str(k) for k in range(901, 1000) if str(k) not in FORBIDDEN_FC and str(k) not in world["fc_keys"]]
    rnd.shuffle(owner_pool)
    big = tier == "thorough" and seed % 4 == 0  # larger AHBs for a quarter of the thorough runs
    requests = [_gen_request(rnd, "r0", world, cer, universe, owner_pool, big)]
    if rnd.random() < 0.12:
        # the caller validates the very same AHB objects a second time (afterwards, possibly in a new event loop):
        # whatever the first validation did to them, every element's result still equals validating it alone
        again = clone(requests[0])
        again["rid"] = "r1"
        again["start"], again["phase"] = (1_000_000, 0) if rnd.random() < 0.5 else (0, 1)
        for both in (requests[0], again):
            both["op"]["same_objects"] = True
        requests.append(again)
    elif rnd.random() < 0.4:
        if rnd.random() < 0.5:
            # the same AHB (same expressions and keys) with other inputs, validated by a second caller
            sibling = clone(requests[0])
            sibling["rid"] = "r1"
            sibling["cer"] = dict(sibling["cer"], hints={k: f"H{k}@r1" for k in sibling["cer"]["hints"]})
            for node, _ in walk(sibling["op"]["ahb"]):
                if node["t"] == "f" and node["input"]:
                    node["input"] = node["input"].replace("-r0-", "-r1-")
        else:
            sibling = _gen_request(rnd, "r1", world, cer, universe, owner_pool)
        sibling["start"] = rnd.choice([0, 0, 1, 3, 1_000_000])
        if rnd.random() < 0.4:
            sibling["fault"] = {"kind": "cancel", "at": rnd.choice([0, 1, 2, 5, 50])}
        requests.append(sibling)
    owned = sorted({k for r in requests for k in r["owners"]})
    world["fc_keys"] = sorted(set(world["fc_keys"]) | set(owned))
    world["sync_fc"] = [k for k in world["fc_keys"] if rnd.random() < 0.15]
    world["fc_anonymous"] = rnd.random() < 0.2  # the evaluator answers every key with two shared, message-less objects
    if rnd.random() < 0.12:
        # the shipped Dict based evaluators ("hardcoded" content evaluation): verdicts are fixed per key, the result
        # objects are shared between all elements and have no message of their own
        world["flavour"] = "dict"
        fixed = dict(requests[0]["cer"])
        fixed["format_constraints"] = {
            k: {"format_constraint_fulfilled": rnd.random() < 0.4, "error_message": None}
            for k in list(world["fc_keys"]) + ["931", "932", "933", "934", "935"]
        }
        world["dict_cer"] = fixed
        for request in requests:
            request["cer"] = dict(fixed, hints=request["cer"]["hints"])
    profile = rnd.choice([p for p in PROFILES if p != "zero"] * 4 + ["zero"])
    return {"property": PROP_ID, "seed": seed, "profile": profile, "world": world, "requests": requests}


def summarise(scenario):
    return {
        "seed": scenario["seed"],
        "profile": scenario["profile"],
        "requests": [
            {"rid": r["rid"], "fault": r.get("fault"), "soll_is_required": r["op"]["soll"], "ahb": compact(r["op"]["ahb"])}
            for r in scenario["requests"]
        ],
    }


size = ahb_size


def shrink(scenario):
    """candidates stay scenarios generate() could have made: callers of the same objects keep the same AHB"""
    for candidate in _shrink(scenario):
        twins = [r for r in candidate["requests"] if r["op"].get("same_objects")]
        if len(twins) == 1:
            twins[0]["op"] = {k: v for k, v in twins[0]["op"].items() if k != "same_objects"}
        elif twins:
            before = [r["op"]["ahb"] for r in scenario["requests"] if r["op"].get("same_objects")]
            changed = next((r["op"]["ahb"] for r in twins if r["op"]["ahb"] not in before), twins[0]["op"]["ahb"])
            candidate["requests"] = [
                dict(r, op=dict(r["op"], ahb=clone(changed))) if r["op"].get("same_objects") else r
                for r in candidate["requests"]
            ]
        yield candidate


def _shrink(scenario):
    if len(scenario["requests"]) > 1:
        for index in range(len(scenario["requests"])):
            candidate = clone(scenario)
            del candidate["requests"][index]
            yield candidate
    for index, request in enumerate(scenario["requests"]):
        if request.get("fault"):
            candidate = clone(scenario)
            del candidate["requests"][index]["fault"]
            yield candidate
    for index in range(len(scenario["requests"])):
        # shrink_validation works on requests[0]: rotate the request to the front and back again
        others = scenario["requests"][:index] + scenario["requests"][index + 1 :]
        for candidate in shrink_validation(dict(scenario, requests=[scenario["requests"][index]])):
            if set(candidate) - {"requests"} and candidate.get("decisions") is not scenario.get("decisions"):
                yield dict(candidate, requests=scenario["requests"]) if candidate["requests"][0] is scenario["requests"][index] else dict(candidate, requests=others[:index] + candidate["requests"] + others[index:])
            else:
                yield dict(candidate, requests=others[:index] + candidate["requests"] + others[index:])


# ------------------------------------------------------------------------------------------------------ oracle
def execute(scenario):
    observed = [r for r in scenario["requests"] if not r.get("fault")]
    references = {r["rid"]: pristine(_references, scenario, r["rid"]) for r in observed}
    try:
        sim, outcomes = run_requests(scenario, do_op)
    except LIVENESS_ERRORS as error:
        return liveness_verdict(error, scenario)
    verdict = base_verdict(sim, scenario)
    verdict["observed"] = len(observed)
    verdict["completed"] = sum(1 for r in observed if "ok" in outcomes.get(r["rid"], {}))
    checked_elements = 0
    world_flavour = scenario["world"].get("flavour", "sim")
    for request in observed:
        rid = request["rid"]
        outcome = strip_msg(outcomes.get(rid, {"missing": True}))
        if "ok" not in outcome:
            # a whole-run exception (UNKNOWN on a MUSS node) - nothing to compare element-wise
            if not is_exception(outcome, "NotImplementedError"):
                fail(verdict, "validation-crashed", f"{rid}: {outcome}")
            continue
        # which node an item belongs to: by position in the document order (discriminators may repeat; what is missing
        # from the report is what lies below a node the report itself calls forbidden)
        nodes = list(walk(request["op"]["ahb"]))
        positions = attribute_items(request["op"]["ahb"], outcome["ok"])
        if positions is None:
            # the report does not cover the tree the way C13 states it: C13's to judge, nothing to pair elements with
            verdict["probes"]["report_does_not_fit_tree"] = verdict["probes"].get("report_does_not_fit_tree", 0) + 1
            continue
        reported_by_position = {
            position: item["validation_result"] for position, item in zip(positions, outcome["ok"])
        }
        position_of = {id(n): i for i, (n, _) in enumerate(nodes)}
        for position, (node, parent) in enumerate(nodes):
            if node["t"] != "f" or position not in reported_by_position:
                continue
            if position_of[id(parent)] not in reported_by_position:
                continue
            segment_status = reported_by_position[position_of[id(parent)]]["requirement_validation"].split(".")[-1]
            expected = references[rid].get(f"{position}|{segment_status}")
            got = {"ok": reported_by_position[position]}
            checked_elements += 1
            message = got["ok"].get("format_error_message") if isinstance(got["ok"], dict) else None
            if message:
                own = node["input"] or ""
                foreign = [
                    other["input"]
                    for other, _ in nodes
                    if other["t"] == "f" and other is not node and other["input"] and len(other["input"]) >= 5
                    and other["input"] not in own and other["input"] in message
                ]
                if foreign:
                    fail(
                        verdict,
                        "foreign-input-in-format-message",
                        f"{rid} element {node['d']} (input {node['input']!r}): its format error message mentions the "
                        f"input of another element: {message!r}",
                    )
            if node.get("expect_fc") and "requirement_validation" in got["ok"] and world_flavour != "dict":
                want = expected_fc_result(node["expect_fc"], node["input"])
                have = (got["ok"].get("format_validation_fulfilled"), got["ok"].get("format_error_message"))
                if scenario["world"].get("fc_anonymous"):
                    # the message is the library's own wording then; only the verdict is predictable
                    want, have = want[:1], have[:1]
                verdict["probes"]["fc_results_predicted"] = verdict["probes"].get("fc_results_predicted", 0) + 1
                if tuple(have) != tuple(want):
                    fail(
                        verdict,
                        "format-result-not-from-own-input",
                        f"{rid} element {node['d']} ({node['e']!r}, input {node['input']!r}): reported {have}, the "
                        f"format constraint evaluated against the element's own input answers {want}",
                    )
            if got != expected:
                fail(
                    verdict,
                    "element-differs-from-validation-alone",
                    f"{rid} element {node['d']} ({node['e']!r}, input {node['input']!r}, segment {segment_status}): "
                    f"in the full validation {dumps(got)[:600]}, validated alone {dumps(expected)[:600]}",
                )
    # evaluator-side record
    inputs = {r["rid"]: {n["d"]: n["input"] for n, _ in walk(r["op"]["ahb"]) if n["t"] == "f"} for r in scenario["requests"]}
    repeated = {
        r["rid"]: {d for d in [n["d"] for n, _ in walk(r["op"]["ahb"])] if [n["d"] for n, _ in walk(r["op"]["ahb"])].count(d) > 1}
        for r in scenario["requests"]
    }
    owners = {r["rid"]: r["owners"] for r in scenario["requests"]}
    owned_calls = 0
    texts_seen = {}
    for rid, key, text in sim.fc_calls:
        owner = owners.get(rid, {}).get(key)
        if owner is None or owner in repeated.get(rid, ()):
            continue
        owned_calls += 1
        texts_seen.setdefault((rid, key, owner), []).append(text)
    observed_rids = [r["rid"] for r in observed]
    for (rid, key, owner), texts in texts_seen.items():
        # a format constraint that was evaluated at all was evaluated against the element's own input (further
        # evaluations against something else are not forbidden by the statement - the result is judged by clause 1)
        if rid in observed_rids and inputs[rid][owner] not in texts:
            fail(
                verdict,
                "format-constraint-saw-foreign-text",
                f"{rid}: format constraint {key} of element {owner} (input {inputs[rid][owner]!r}) was evaluated "
                f"against {texts!r} only",
            )
    verdict["probes"]["owned_fc_calls"] = owned_calls
    verdict["probes"]["elements_compared"] = checked_elements
    elements_with_calls = {(rid, owners.get(rid, {}).get(key)) for rid, key, _ in sim.fc_calls if owners.get(rid, {}).get(key)}
    verdict["nontrivial"] = bool(verdict["nontrivial"] and len(elements_with_calls) >= 2)
    return verdict
