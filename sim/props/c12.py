"""
C12 - results do not depend on the completion order of asynchronous evaluators.

Workload: 1-4 concurrent requests in one loop and one injector, each with its own evaluatable data in context-local
storage, calling ahbicht's public API (direct gather sites, expression evaluation, package expansion, validity check).
Schedule: latency of every peer call from the PRF / decisions table. Faults: sibling failure, sibling cancellation.
Oracle: (1) differential - the outcome of every observed request equals the outcome of the same request run alone in a
pristine process with peers that never yield; (2) direct pairing clauses; (3) no tag of another request in a result.
"""

import re

from sim import env  # noqa: F401
from sim.canon import dumps
from sim.gen_expr import gen_ahb_parts, gen_invalid, gen_valid, key_universe, keys_of, render, render_ahb, shape
from sim.prf import PROFILES, rng
from sim.props.common import (
    LIVENESS_ERRORS,
    STATES,
    ast_size,
    base_verdict,
    clone,
    fail,
    liveness_verdict,
    shrink_ast,
    solo_reference,
    to_tuple,
)
from sim.runner import shrink_decisions
from sim.world import CER, REQ, evaluatable_data_provider, make_cer, run_requests

PROP_ID = "C12"
LEVEL = "exploration"
RULE = (
    "one case = one seeded scenario (1-4 concurrent requests drawn from 9 kinds of ahbicht API calls, a key universe, "
    "per-request evaluatable data, sync/async and dict/CER peer flavours, a latency profile, optional sibling "
    "failure/cancellation) executed once under the simulated loop; a case is non-trivial iff at least one pair of "
    "peer calls that were in flight together completed in an order different from their start order (measured from "
    "the event log); distinct = distinct event-log digests among the non-trivial cases"
)
TAG = re.compile(r"@(r\d+)")


# --------------------------------------------------------------------------------------------------------- ops
async def do_op(sim, request):
    from ahbicht.content_evaluation import is_valid_expression
    from ahbicht.content_evaluation.fc_evaluators import text_to_be_evaluated_by_format_constraint
    from ahbicht.expressions.ahb_expression_evaluation import evaluate_ahb_expression_tree
    from ahbicht.expressions.expression_resolver import (
        expand_packages,
        parse_expression_including_unresolved_subexpressions,
    )
    from ahbicht.expressions.format_constraint_expression_evaluation import format_constraint_evaluation
    from ahbicht.expressions.requirement_constraint_expression_evaluation import requirement_constraint_evaluation
    from ahbicht.models.content_evaluation_result import ContentEvaluationResultSchema
    from ahbicht.utility_functions import gather_if_necessary

    op = request["op"]
    kind = op["op"]
    from sim.world import PEER_SET

    rc_evaluator, fc_evaluator, hints_provider, _ = sim.peer_sets[PEER_SET.get() if len(sim.peer_sets) > 1 else 0]
    if "text" in op:
        text_to_be_evaluated_by_format_constraint.set(op["text"])
    if kind == "rc_direct":
        contexts = None
        if op.get("contexts") is not None:
            from ahbicht.content_evaluation.evaluationdatatypes import EvaluationContext

            contexts = {k: EvaluationContext(scope=f"$['state-{v}']") for k, v in op["contexts"].items()}
        if contexts is None:
            return await rc_evaluator.evaluate_conditions(op["keys"], evaluatable_data_provider())
        return await rc_evaluator.evaluate_conditions(
            op["keys"], evaluatable_data_provider(), condition_keys_with_context=contexts
        )
    if kind == "fc_direct":
        return await fc_evaluator.evaluate_format_constraints(op["keys"])
    if kind == "hints_direct":
        return await hints_provider.get_hints(op["keys"], raise_key_error=op.get("raise_key_error", True))
    if kind == "gather_mixed":
        rid = REQ.get().split("+")[0]  # (a follow-up message of a worker task carries the task's request id)

        async def awaitable(tag):
            await sim.pause("aw", tag)
            return f"A{tag}@{rid}"

        items = [awaitable(item[1]) if item[0] == "a" else f"V{item[1]}@{rid}" for item in op["items"]]
        return await gather_if_necessary(items)
    if kind == "rc_eval":
        if op.get("as_tree"):  # the documented alternative: an already parsed tree instead of the string
            from ahbicht.expressions.condition_expression_parser import parse_condition_expression_to_tree

            return await requirement_constraint_evaluation(parse_condition_expression_to_tree(op["expr"]))
        return await requirement_constraint_evaluation(op["expr"])
    if kind == "fc_eval":
        return await format_constraint_evaluation(op["expr"])
    if kind == "ahb_eval":
        if op.get("resolve") is None:  # the tree as the AHB parser returns it: condition parts are still strings
            from ahbicht.expressions.ahb_expression_parser import (
                parse_ahb_expression_to_single_requirement_indicator_expressions,
            )

            return await evaluate_ahb_expression_tree(
                parse_ahb_expression_to_single_requirement_indicator_expressions(op["expr"])
            )
        tree = await parse_expression_including_unresolved_subexpressions(
            op["expr"], resolve_packages=op.get("resolve", True)
        )
        return await evaluate_ahb_expression_tree(tree)
    if kind == "expand":
        tree = await parse_expression_including_unresolved_subexpressions(
            op["expr"], resolve_packages=False, replace_time_conditions=False
        )
        return await expand_packages(tree)
    if kind == "valid":
        schema = ContentEvaluationResultSchema()
        handed_out = []

        def setter(content_evaluation_result):
            body = schema.dump(content_evaluation_result)
            # a token *inside* the data identifies it (it survives defensive copies of the evaluatable data): the
            # content evaluation result's own id field
            import uuid

            sim.data_tokens = getattr(sim, "data_tokens", 0) + 1
            body["id"] = str(uuid.UUID(int=sim.data_tokens))
            handed_out.append(body)
            CER.set(body)

        subject = op["expr"]
        if op.get("as_tree"):
            subject = await parse_expression_including_unresolved_subexpressions(op["expr"])
        flag, reason = await is_valid_expression(subject, setter)
        own = REQ.get().split("+")[0]
        foreign_tags = sorted({t for t in TAG.findall(reason or "") if t != own})
        if foreign_tags and sim.shared_violation is None:
            sim.shared_violation = (
                "isolation:valid-reason",
                f"{own}: the reason returned by is_valid_expression({op['expr']!r}) quotes texts of {foreign_tags}: "
                f"{reason!r}",
            )
        contents = [dumps([b.get("requirement_constraints"), b.get("format_constraints")]) for b in handed_out]
        seen_tokens = sim.data_seen
        if len(contents) > 2 and len(set(contents)) == 1 and sim.shared_violation is None:
            # every evaluation of the validity check has data of its own. (Evaluating one content evaluation result
            # twice - a fail-fast probe before the fan-out, say - is not forbidden; all of them being the very same
            # one is.)
            sim.shared_violation = (
                "isolation:valid",
                f"{REQ.get()}: is_valid_expression({op['expr']!r}) handed the very same content evaluation result to "
                f"all of its {len(contents)} evaluations",
            )
        if flag and op.get("has_rc"):
            # every evaluation sees its own data: whatever was set for an evaluation has been seen by that
            # evaluation's requirement-constraint evaluators (all of them ran to completion: the verdict is True)
            unseen = [body for body in handed_out if body["id"] not in seen_tokens]
            sim.probe("validity_setter_calls", len(handed_out))
            if unseen and sim.scenario["world"].get("flavour", "sim") == "sim":
                sim.shared_violation = (
                    "isolation:valid",
                    f"{REQ.get()}: is_valid_expression({op['expr']!r}) set {len(handed_out)} content evaluation "
                    f"results but the evaluators never saw {len(unseen)} of them, e.g. "
                    f"{unseen[0]['requirement_constraints']}",
                )
        # the reason text legitimately depends on which of the gathered evaluations fails first (DESIGN 9.2)
        return [flag, isinstance(reason, str) and len(reason) > 0]
    raise ValueError(kind)


async def do_reference_op(sim, request):
    """ops that only exist as references: the textually substituted expression, parsed / evaluated"""
    from ahbicht.expressions.expression_resolver import parse_expression_including_unresolved_subexpressions

    op = request["op"]
    if op["op"] == "parse_only":
        return await parse_expression_including_unresolved_subexpressions(
            op["expr"], resolve_packages=False, replace_time_conditions=False
        )
    return await do_op(sim, request)


def _substituted_reference(scenario, request):
    """
    'every package occurrence is paired with the value produced for it': the expression in which every package is
    textually replaced by its bracketed expression must give the same tree / the same evaluation result
    """
    from sim.props.c10 import PACKAGE, substitute

    op = request["op"]
    if op["op"] not in ("expand", "ahb_eval") or op.get("resolve", True) is not True and op["op"] == "ahb_eval":
        return None
    if not PACKAGE.search(op["expr"]):
        return None
    packages = request["cer"]["packages"]
    if any(k not in packages for k, _ in PACKAGE.findall(op["expr"])):
        return None
    text = substitute(op["expr"], packages, True, False)
    if op["op"] == "expand":
        new_op = {"op": "parse_only", "expr": text}
    else:
        new_op = dict(op, expr=text, resolve=False)
        new_op.pop("parts", None)
    twin = dict(scenario, requests=[dict(r, op=new_op) if r["rid"] == request["rid"] else r for r in scenario["requests"]])
    return solo_reference(twin, request["rid"], "sim.props.c12", "do_reference_op")


# --------------------------------------------------------------------------------------------------- generation
def _gen_op(rnd, rc, hints, fcs, packages, flavour="sim"):
    roll = rnd.random()

    def keylist(pool):
        n = rnd.randint(1, min(8, len(pool) + 2))
        return [rnd.choice(pool) for _ in range(n)]

    if roll < 0.08:
        op = {"op": "rc_direct", "keys": keylist(rc)}
        if flavour == "sim" and rnd.random() < 0.4:
            op["contexts"] = {k: rnd.choice(STATES) for k in sorted(set(op["keys"])) if rnd.random() < 0.5}
        return op
    if roll < 0.15:
        return {"op": "fc_direct", "keys": keylist(fcs), "text": rnd.choice([None, "", "abc", "4711"])}
    if roll < 0.22:
        op = {"op": "hints_direct", "keys": keylist(hints)}
        if rnd.random() < 0.3:
            op["keys"].insert(rnd.randrange(len(op["keys"]) + 1), "899" if "899" not in hints else "898")
            op["raise_key_error"] = rnd.random() < 0.4
        return op
    if roll < 0.30:
        n = rnd.randint(1, 7)
        return {"op": "gather_mixed", "items": [[rnd.choice("av"), i] for i in range(n)]}
    if roll < 0.42:
        ast, _ = gen_valid(rnd, rnd.randint(1, 4), rc, hints, fcs)
        op = {"op": "rc_eval", "ast": ast, "expr": render(ast, rnd, "wild"), "as_tree": rnd.random() < 0.25}
        if rnd.random() < 0.15 and hints:
            # two things are missing, in two *sequential* stages (requirement constraints are evaluated before the
            # hints are fetched): whatever the schedule, the caller sees the first stage's error
            base, _ = gen_valid(rnd, rnd.randint(0, 2), rc, hints, fcs, want=("rc",))
            ast = ("and", base, ("k", rnd.choice(hints)))
            used_rc = [k for k in keys_of(base) if k in rc]
            op = {"op": "rc_eval", "ast": ast, "expr": render(ast, rnd, "wild"),
                  "drop": {"rc": rnd.choice(used_rc), "hint": ast[2][1]}}
        return op
    if roll < 0.50:
        ast, _ = gen_valid(rnd, rnd.randint(1, 3), rc, hints, fcs, want=("nfc", "fc"))
        if rnd.random() < 0.08:  # nothing to evaluate counts as fulfilled
            return {"op": "fc_eval", "expr": rnd.choice([None, ""]), "text": rnd.choice([None, "x"])}
        return {"op": "fc_eval", "ast": ast, "expr": render(ast, rnd, "wild"), "text": rnd.choice([None, "x", "foo"])}
    if roll < 0.80:
        parts = gen_ahb_parts(rnd, rnd.randint(1, 3), rc, hints, fcs, packages, max_parts=4, allow_ub=bool(packages))
        if rnd.random() < 0.35 and len(parts) < 4:  # more modal mark parts: the gather_if_necessary site
            extra = gen_ahb_parts(rnd, 1, rc, hints, fcs, packages, max_parts=2, indicators=["MUSS", "SOLL", "KANN"])
            if all(a is not None for _, a in parts) and parts[0][0] in ("MUSS", "SOLL", "KANN"):
                parts = parts + [p for p in extra if p[0] in ("MUSS", "SOLL", "KANN")]
                # only the last part may be a bare indicator
                parts = [p for i, p in enumerate(parts) if p[1] is not None or i == len(parts) - 1]
        return {
            "op": "ahb_eval",
            "parts": parts,
            "expr": render_ahb(parts, rnd, rnd.choice(["plain", "symbol"])),
            "resolve": None if (not packages and rnd.random() < 0.25) else True,
            "text": rnd.choice([None, "text", "12345"]),
        }
    if roll < 0.90:
        if packages:
            ast, _ = gen_valid(rnd, rnd.randint(2, 4), rc, hints, fcs, packages)
        else:
            ast, _ = gen_valid(rnd, 2, rc, hints, fcs)
        return {"op": "expand", "ast": ast, "expr": render(ast, rnd, "wild")}
    small_rc, small_fc = rc[: rnd.randint(1, 3)], fcs[: rnd.randint(0, 2)]
    if rnd.random() < 0.3 and hints:
        ast, _ = gen_invalid(rnd, small_rc, hints, small_fc or fcs[:1])
    else:
        ast, _ = gen_valid(rnd, rnd.randint(1, 3), small_rc, hints, small_fc)
    indicator = rnd.choice(["Muss", "X", "Soll", "Kann"])
    return {"op": "valid", "parts": [(indicator.upper() if indicator != "X" else "X", ast)],
            "expr": f"{indicator} {render(ast)}", "has_rc": any(k in small_rc for k in keys_of(ast)),
            "as_tree": rnd.random() < 0.3}


def generate(seed, tier="quick"):
    rnd = rng(seed, "c12")
    big = tier == "thorough" and seed % 4 == 0  # deeper bounds for a quarter of the thorough runs
    rc, hints, fcs = key_universe(rnd, rnd.randint(2, 9 if big else 5), rnd.randint(1, 4 if big else 3),
                                  rnd.randint(1, 5 if big else 3))
    wide_rnd = rng(seed, "c12-wide")  # (a stream of its own: the other scenarios stay what they were)
    wide_world = wide_rnd.random() < 0.06
    if wide_world:
        # more keys at one gather site than any batch size a library would plausibly choose
        rc, hints, fcs = key_universe(wide_rnd, wide_rnd.randint(17, 40), wide_rnd.randint(17, 30),
                                      wide_rnd.randint(17, 30))
    flavour = "cer" if rnd.random() < 0.25 else "sim"
    world = {
        "flavour": flavour,
        "rc_keys": sorted(set(rc) | {"492", "493"}, key=int),
        "fc_keys": fcs,
        "hint_keys": hints,
        "sync_rc": [k for k in rc if rnd.random() < 0.2],
        "sync_fc": [k for k in fcs if rnd.random() < 0.2],
        "hints_sync": rnd.random() < 0.15,
    }
    if flavour == "sim":
        world["fc_anonymous"] = rnd.random() < 0.15  # the FC evaluator answers with two shared constant objects
        # the process serves two or three (format, version) pairs, each with peers of its own
        world["n_formats"] = rnd.choice([1, 1, 1, 1, 1, 1, 1, 2, 3, 3])
    profile = rnd.choice([p for p in PROFILES if p != "zero"] * 4 + ["zero"])
    package_kinds = {f"{rnd.randint(1, 99)}P": "rc" for _ in range(rnd.choice([0, 1, 2, 2]))}
    n_requests = rnd.choice([2, 3, 4, 5, 6, 8] if big else [1, 1, 2, 2, 3, 4])
    requests = []
    for index in range(n_requests):
        rid = f"r{index}"
        packages = {}
        for pkey in package_kinds:
            ast, _ = gen_valid(rnd, rnd.randint(0, 2), rc, hints, fcs, want=("rc",))
            packages[pkey] = render(ast, rnd, "wild")
        cer = make_cer(
            rid,
            rc={k: rnd.choice(STATES) for k in rc},
            fc={k: rnd.random() < 0.5 for k in fcs},
            hints=hints,
            packages=packages,
            time_conditions=True,
        )
        op = _gen_op(rnd, rc, hints, fcs, package_kinds, flavour)
        if op.get("drop"):
            cer["requirement_constraints"].pop(op["drop"]["rc"], None)
            cer["hints"].pop(op["drop"]["hint"], None)
        requests.append({"rid": rid, "start": rnd.choice([0, 0, 0, 1, 2, 7]), "op": op, "cer": cer,
                         "peer_set": rnd.randrange(world.get("n_formats") or 1)})
    for request in requests:
        if rnd.random() < 0.15:
            # a worker task that processes one message after the other: the next one has other data
            rid = request["rid"]
            follow_packages = {}
            for pkey in package_kinds:
                ast, _ = gen_valid(rnd, rnd.randint(0, 2), rc, hints, fcs, want=("rc",))
                follow_packages[pkey] = render(ast, rnd, "wild")
            follow_cer = make_cer(rid, rc={k: rnd.choice(STATES) for k in rc}, fc={k: rnd.random() < 0.5 for k in fcs},
                                  hints=hints, packages=follow_packages, time_conditions=True)
            follow_op = _gen_op(rnd, rc, hints, fcs, package_kinds, flavour)
            if not follow_op.get("drop") and not request["op"].get("drop"):
                request["follow_ups"] = [{"op": follow_op, "cer": follow_cer, "peer_set": request.get("peer_set", 0)}]
    validity_checks = [r for r in requests if r["op"]["op"] == "valid"]
    for later in validity_checks[1:]:
        if rnd.random() < 0.5:  # several callers ask about the very same expression
            later["op"] = clone(validity_checks[0]["op"])
    for request in requests:
        if request["op"]["op"] == "valid" and not request.get("follow_ups") and rnd.random() < 0.5:
            # after the validity check the task goes on evaluating with ITS OWN data, which it does not set again
            follow_op = _gen_op(rnd, rc, hints, fcs, package_kinds, flavour)
            if not follow_op.get("drop") and follow_op["op"] != "valid":
                request["follow_ups"] = [{"op": follow_op, "cer": None, "peer_set": request.get("peer_set", 0)}]
    complete = [r for r in requests if not r["op"].get("drop")]  # (a staged failure has taken keys out of the data)
    if wide_world and complete:
        target = wide_rnd.choice(complete)
        target.pop("follow_ups", None)
        kind = wide_rnd.choice(["rc_direct", "rc_direct", "fc_direct", "hints_direct", "rc_eval", "rc_eval"])
        pool = {"rc_direct": rc, "rc_eval": rc, "fc_direct": fcs, "hints_direct": hints}[kind]
        keys = list(pool)
        wide_rnd.shuffle(keys)
        if kind == "rc_eval":
            ast = ("k", keys[0])
            for key in keys[1:]:
                ast = (wide_rnd.choice(["and", "or", "xor"]), ast, ("k", key))
            for key in keys:  # (determined states, so that the keys' own values say what the result is)
                if target["cer"]["requirement_constraints"][key] == "UNKNOWN":
                    target["cer"]["requirement_constraints"][key] = wide_rnd.choice(["FULFILLED", "UNFULFILLED"])
            target["op"] = {"op": "rc_eval", "ast": ast, "expr": render(ast, wide_rnd, "plain"), "as_tree": False}
        elif kind == "fc_direct":
            target["op"] = {"op": "fc_direct", "keys": keys, "text": "abc"}
        else:
            target["op"] = {"op": kind, "keys": keys}
    if n_requests >= 2 and rnd.random() < 0.12:
        # result objects must not be shared between evaluations: one evaluation is won by a trailing bare modal mark
        # (all conditional parts unfulfilled), others evaluate bare indicators - before, after or at the same time
        loser = rnd.choice(rc)
        for request in requests:
            request.pop("follow_ups", None)
        requests[0]["cer"]["requirement_constraints"][loser] = "UNFULFILLED"
        parts = [("MUSS", ("k", loser)), (rnd.choice(["KANN", "MUSS", "SOLL"]), None)]
        requests[0]["op"] = {"op": "ahb_eval", "parts": parts, "expr": render_ahb(parts, rnd), "resolve": True,
                             "text": None}
        for other in requests[1:]:
            bare = [(rnd.choice(["MUSS", "SOLL", "KANN", "X"]), None)]
            other["op"] = {"op": "ahb_eval", "parts": bare, "expr": render_ahb(bare, rnd), "resolve": True, "text": None}
            other["start"] = rnd.choice([0, 1, 5, 50, 1000])
    if n_requests >= 2 and rnd.random() < 0.12:
        # the later requests are served by a new event loop of the same process
        for request in requests[rnd.randrange(1, n_requests):]:
            request["phase"] = 1
    if n_requests >= 2 and rnd.random() < 0.04 and len(rc) >= 3:
        # many evaluations in flight at once, in two event loops of the same process one after the other
        wide = ("and", ("k", rc[0]), ("or", ("k", rc[1]), ("k", rc[2])))
        for number, request in enumerate(requests[:2]):
            request.pop("follow_ups", None)
            request["op"] = {"op": "valid", "parts": [("MUSS", wide)], "expr": f"Muss {render(wide)}", "has_rc": True,
                             "as_tree": False}
            request["phase"] = number
        profile = rnd.choice(["uniform", "mixed", "yield"])
    if n_requests >= 2 and rnd.random() < 0.3:
        victim = requests[rnd.randrange(1, n_requests)]
        if rnd.random() < 0.5:
            peer, pool = rnd.choice([("rc", rc), ("hint", hints), ("fc", fcs)])
            victim["fault"] = {"kind": "raise", "peer": peer, "key": rnd.choice(pool)}
        else:
            victim["fault"] = {"kind": "cancel", "at": rnd.choice([0, 1, 2, 3, 10, 500])}
    return {"property": PROP_ID, "seed": seed, "profile": profile, "world": world, "requests": requests,
            "time_unit": 0.001}


def summarise(scenario):
    return {
        "seed": scenario["seed"],
        "profile": scenario["profile"],
        "flavour": scenario["world"]["flavour"],
        "requests": [
            {"rid": r["rid"], "op": r["op"]["op"], "expr": r["op"].get("expr", r["op"].get("keys", r["op"].get("items"))),
             "fault": r.get("fault")}
            for r in scenario["requests"]
        ],
    }


# ------------------------------------------------------------------------------------------------------ oracle
class _NoModel(Exception):
    """the small model says nothing about this expression (packages, time conditions, undetermined keys)"""


def _model_value(ast, cer):
    """True / False, or "N" for an operand that is neutral (hints, format constraints)"""
    kind = ast[0]
    if kind == "k":
        state = cer["requirement_constraints"].get(ast[1])
        if state is None:
            if ast[1] in cer["hints"] or ast[1] in cer["format_constraints"]:
                return "N"
            raise _NoModel
        if state not in ("FULFILLED", "UNFULFILLED"):
            raise _NoModel
        return state == "FULFILLED"
    if kind in ("p", "ub"):
        raise _NoModel
    left, right = _model_value(ast[1], cer), _model_value(ast[2], cer)
    if kind in ("and", "ta"):
        if left == "N":
            return right
        return left if right == "N" else (left and right)
    if left == "N" and right == "N":
        return "N"
    if left == "N" or right == "N":
        raise _NoModel
    return (left or right) if kind == "or" else (left != right)


def _fc_model_value(ast, cer):
    kind = ast[0]
    if kind == "k":
        entry = cer["format_constraints"].get(ast[1])
        if entry is None:
            raise _NoModel
        return bool(entry["format_constraint_fulfilled"])
    if kind not in ("and", "or", "xor"):
        raise _NoModel
    left, right = _fc_model_value(ast[1], cer), _fc_model_value(ast[2], cer)
    return (left and right) if kind == "and" else (left or right) if kind == "or" else (left != right)


def _direct_clause(request, outcome, world, probes=None):
    """the pairing clause that can be stated without a reference run; returns None or a description"""
    if "ok" not in outcome:
        return None
    op, cer, rid = request["op"], request["cer"], request["rid"]
    result = outcome["ok"]
    if op["op"] == "rc_direct":
        contexts = op.get("contexts") or {}
        expected = sorted(
            [k, f"ConditionFulfilledValue.{contexts.get(k, cer['requirement_constraints'][k])}"]
            for k in dict.fromkeys(op["keys"])
        )
        if not isinstance(result, dict) or sorted(result.get("!dict", [])) != expected:
            return f"evaluate_conditions({op['keys']}) returned {result}, expected {expected}"
    if op["op"] == "hints_direct":
        pairs = result.get("!dict") if isinstance(result, dict) else None
        expected_keys = sorted(k for k in dict.fromkeys(op["keys"]) if k in cer["hints"])
        if pairs is None or sorted(p[0] for p in pairs) != expected_keys:
            return f"get_hints({op['keys']}) returned keys {pairs}"
        for key, value in pairs:
            if value.get("hint") != cer["hints"][key] or value.get("condition_key") != key:
                return f"get_hints: key {key} paired with {value}"
    if op["op"] == "fc_direct":
        pairs = result.get("!dict") if isinstance(result, dict) else None
        if pairs is None or sorted(p[0] for p in pairs) != sorted(dict.fromkeys(op["keys"])):
            return f"evaluate_format_constraints({op['keys']}) returned keys {pairs}"
        anonymous = world.get("fc_anonymous") and world.get("flavour", "sim") == "sim"
        for key, value in pairs:
            entry = cer["format_constraints"][key]
            if value.get("format_constraint_fulfilled") != entry["format_constraint_fulfilled"]:
                return f"evaluate_format_constraints: key {key} paired with {value}"
            if anonymous:
                # the evaluator gave no message of its own: whatever text the library adds must be this key's
                # (a text that names no key at all pairs nothing wrongly)
                named = set(re.findall(r"\d+", value.get("error_message") or ""))
                if key not in named and named & {other for other in op["keys"] if other != key}:
                    return f"evaluate_format_constraints: key {key} carries the message of another key: {value}"
            elif value.get("error_message") != entry["error_message"]:
                return f"evaluate_format_constraints: key {key} paired with {value}"
    if op["op"] in ("rc_eval", "ahb_eval") and not op.get("drop"):
        # "every condition key is paired with the value produced for it" inside an expression: the sampled run and its
        # no-yield reference run the same code, so a mispairing that no schedule influences needs a value that does
        # not come from the code - two-valued logic over the generated syntax tree where every key used is determined
        parts = [("", op["ast"])] if op["op"] == "rc_eval" else op["parts"]
        try:
            values = [True if ast is None else _model_value(to_tuple(ast), cer) for _, ast in parts]
        except _NoModel:
            values = []
        if values and all(isinstance(v, bool) for v in values):
            if probes is not None:
                probes["model_clause_applied"] = probes.get("model_clause_applied", 0) + 1
            chosen = next((i for i, v in enumerate(values) if v), len(values) - 1)
            inner = result if op["op"] == "rc_eval" else (result or {}).get("requirement_constraint_evaluation_result")
            got = inner.get("requirement_constraints_fulfilled") if isinstance(inner, dict) else "?"
            if got is not values[chosen]:
                return (f"{op['expr']!r} with {cer['requirement_constraints']}: requirement_constraints_fulfilled is "
                        f"{got!r}, the keys' own values give {values[chosen]!r} (parts: {values})")
            if op["op"] == "ahb_eval":
                indicator = str(result.get("requirement_indicator")).split(".")[-1].upper()
                if indicator != str(parts[chosen][0]).upper():
                    return (f"{op['expr']!r} with {cer['requirement_constraints']}: indicator {indicator}, the keys' "
                            f"own values select part {chosen} ({parts[chosen][0]}; parts: {values})")
    if op["op"] == "fc_eval" and op.get("ast") and world.get("fc_mode", "cer") == "cer":
        # the same for format constraints: every key's own verdict (as the content evaluation result gives it), two-
        # valued logic over the generated tree
        try:
            value = _fc_model_value(to_tuple(op["ast"]), cer)
        except _NoModel:
            value = None
        got = result.get("format_constraints_fulfilled") if isinstance(result, dict) else "?"
        if value is not None and probes is not None:
            probes["fc_model_clause_applied"] = probes.get("fc_model_clause_applied", 0) + 1
        if value is not None and got is not value:
            verdicts = {k: v["format_constraint_fulfilled"] for k, v in cer["format_constraints"].items()}
            return (f"{op['expr']!r} with {verdicts}: format_constraints_fulfilled is {got!r}, the keys' own verdicts "
                    f"give {value!r}")
    if op["op"] == "gather_mixed":
        expected = [f"{'A' if item[0] == 'a' else 'V'}{item[1]}@{rid.split('+')[0]}" for item in op["items"]]
        if result != expected:
            return f"gather_if_necessary returned {result}, expected {expected}"
    return None


def _flatten(scenario):
    """every follow-up as a stand-alone request of its own (that is what its reference is)"""
    flat = []
    for request in scenario["requests"]:
        flat.append({k: v for k, v in request.items() if k != "follow_ups"})
        for number, follow_up in enumerate(request.get("follow_ups") or [], 1):
            flat.append(dict(follow_up, rid=f"{request['rid']}+{number}", fault=request.get("fault"),
                             cer=follow_up.get("cer") or request["cer"]))
    return flat


def execute(scenario):
    flat = dict(scenario, requests=_flatten(scenario))
    observed = [r for r in flat["requests"] if not r.get("fault")]
    references = {r["rid"]: solo_reference(flat, r["rid"], "sim.props.c12") for r in observed}
    substituted = {r["rid"]: _substituted_reference(flat, r) for r in observed}
    try:
        sim, outcomes = run_requests(scenario, do_op)
    except LIVENESS_ERRORS as error:
        return liveness_verdict(error, scenario)
    verdict = base_verdict(sim, scenario)
    verdict["completed"] = sum(1 for r in observed if "ok" in outcomes.get(r["rid"], {}))
    verdict["observed"] = len(observed)
    for request in observed:
        rid = request["rid"]
        outcome = {k: v for k, v in outcomes.get(rid, {"missing": True}).items() if k != "msg"}
        kind = request["op"]["op"]
        problem = _direct_clause(request, outcome, scenario["world"], verdict["probes"])
        if len(request["op"].get("keys") or []) > 16 or len(keys_of(to_tuple(request["op"]["ast"])) if request["op"].get(
                "ast") else []) > 16:
            verdict["probes"]["more_than_16_keys_at_one_site"] = verdict["probes"].get(
                "more_than_16_keys_at_one_site", 0) + 1
        if problem:
            fail(verdict, f"pairing:{kind}", f"{rid}: {problem}")
        expects_exception = bool(request["op"].get("drop")) or (
            kind == "hints_direct" and request["op"].get("raise_key_error") is True
            and any(k not in request["cer"]["hints"] for k in request["op"]["keys"])
        )
        if "ok" not in outcome and not expects_exception:
            # valid expression, complete data, nothing injected into this request: there is nothing to fail
            fail(verdict, f"unexpected-exception:{kind}", f"{rid} ({request['op'].get('expr', request['op'])}): {outcome}")
        if substituted[rid] is not None and outcome != substituted[rid]:
            fail(
                verdict,
                f"pairing:package-occurrence:{kind}",
                f"{rid} ({request['op']['expr']} with {request['cer']['packages']}): got {dumps(outcome)[:600]} but "
                f"the textually substituted expression gives {dumps(substituted[rid])[:600]}",
            )
        text = dumps(outcome)
        foreign = sorted({t for t in TAG.findall(text) if t != rid.split("+")[0]})
        if foreign:
            fail(verdict, f"isolation:{kind}", f"{rid}: result carries data of {foreign}: {text[:600]}")
        if outcome != references[rid]:
            fail(
                verdict,
                f"differs-from-no-yield-run:{kind}",
                f"{rid} ({request['op'].get('expr', request['op'])}): sampled schedule gave {text[:700]} but the "
                f"request alone with non-yielding peers gives {dumps(references[rid])[:700]}",
            )
    return verdict


# ------------------------------------------------------------------------------------------------------ shrink
def size(scenario):
    total = len(scenario["requests"]) * 10 + 8 * sum(len(r.get("follow_ups") or []) for r in scenario["requests"])
    for request in scenario["requests"]:
        op = request["op"]
        total += ast_size(to_tuple(op["ast"])) if op.get("ast") else 0
        total += sum(ast_size(to_tuple(a)) for _, a in op.get("parts", []) if a)
        total += len(op.get("keys", [])) + len(op.get("items", []))
        total += 3 if request.get("fault") else 0
    total += sum(1 for v in (scenario.get("decisions") or {}).values() if v[0] != "n")
    return total


def _with_op(scenario, index, op):
    candidate = clone(scenario)
    candidate["requests"][index]["op"] = op
    return candidate


def shrink(scenario):
    """candidates stay scenarios generate() could have made: valid expressions stay valid"""

    def trees(candidate):
        for request in candidate["requests"]:
            op = request["op"]
            if op["op"] == "valid":
                continue  # (validity checks are asked about invalid expressions as well)
            if op.get("ast"):
                yield request["rid"], to_tuple(op["ast"])
            for number, (_, ast) in enumerate(op.get("parts") or []):
                if ast is not None:
                    yield f"{request['rid']}/{number}", to_tuple(ast)

    before = {name: shape(ast) for name, ast in trees(scenario)}
    for candidate in _shrink(scenario):
        if all(shape(ast) is not None or before.get(name, "?") is None for name, ast in trees(candidate)):
            yield candidate


def _shrink(scenario):
    requests = scenario["requests"]
    if len(requests) > 1:
        for index in range(len(requests)):
            candidate = clone(scenario)
            del candidate["requests"][index]
            yield candidate
    for index, request in enumerate(requests):
        if request.get("follow_ups"):
            candidate = clone(scenario)
            del candidate["requests"][index]["follow_ups"]
            yield candidate
        if request.get("fault"):
            candidate = clone(scenario)
            del candidate["requests"][index]["fault"]
            yield candidate
        if request.get("start"):
            candidate = clone(scenario)
            candidate["requests"][index]["start"] = 0
            yield candidate
        if request.get("phase"):
            candidate = clone(scenario)
            del candidate["requests"][index]["phase"]
            yield candidate
    for index, request in enumerate(requests):
        op = request["op"]
        if op.get("ast"):
            for smaller in shrink_ast(to_tuple(op["ast"])):
                if op.get("drop") and not {op["drop"]["rc"], op["drop"]["hint"]} <= set(keys_of(smaller)):
                    continue
                yield _with_op(scenario, index, dict(op, ast=smaller, expr=render(smaller)))
        if op.get("parts"):
            parts = [(i, to_tuple(a)) for i, a in op["parts"]]
            prefix = op["expr"].split(" ")[0] if op["op"] == "valid" else None

            rc_keys = set(scenario["world"]["rc_keys"])

            def rendered(new_parts, _prefix=prefix):
                if _prefix is not None:
                    return f"{_prefix} {render(new_parts[0][1])}"
                return render_ahb(new_parts)

            if len(parts) > 1:
                for drop in range(len(parts)):
                    remaining = parts[:drop] + parts[drop + 1 :]
                    if any(a is None for _, a in remaining[:-1]):
                        continue
                    yield _with_op(scenario, index, dict(op, parts=remaining, expr=rendered(remaining)))
            for pindex, (indicator, ast) in enumerate(parts):
                if ast is None:
                    continue
                for smaller in shrink_ast(ast):
                    new_parts = parts[:pindex] + [(indicator, smaller)] + parts[pindex + 1 :]
                    new_op = dict(op, parts=new_parts, expr=rendered(new_parts))
                    if op["op"] == "valid":
                        new_op["has_rc"] = any(k in rc_keys for k in keys_of(smaller))
                    yield _with_op(scenario, index, new_op)
        for field in ("keys", "items"):
            if field in op and len(op[field]) > 1:
                for drop in range(len(op[field])):
                    yield _with_op(scenario, index, dict(op, **{field: op[field][:drop] + op[field][drop + 1 :]}))
    world = scenario["world"]
    for field in ("sync_rc", "sync_fc"):
        if world.get(field):
            yield dict(scenario, world=dict(world, **{field: []}))
    if world.get("hints_sync"):
        yield dict(scenario, world=dict(world, hints_sync=False))
    yield from shrink_decisions(scenario)
