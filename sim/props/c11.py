"""
C11 - parsing is a pure function of the string, whatever happened before.

Workload: 1-4 clients in one loop sharing the two process-global parse caches. Operations: P/A parse with the
condition / AHB parser (strings from a small pool, so hits are frequent), R resolve, E evaluate (with yielding peers,
so the evaluation stays in flight across other clients' operations), M edit a previously returned tree in place at
any depth, F flood the cache with fresh strings (eviction), S let virtual time pass.
Reference: the same call as the first and only thing a pristine process does (cold caches, no edits, no yields).
Oracle: every tree returned by a parse and every R/E result equals its pristine reference, a final sweep re-parses
every pool string, and a tree nobody edited does not change when another caller edits theirs.
"""

from sim import env  # noqa: F401
from sim.canon import canon, canon_tree, dumps
from sim.gen_expr import gen_ahb_parts, gen_valid, key_universe, render, render_ahb
from sim.prf import PROFILES, rng
from sim.props.common import LIVENESS_ERRORS, STATES, base_verdict, clone, fail, liveness_verdict, strip_msg
from sim.runner import pristine, shrink_decisions
from sim.world import TIME_UNIT, describe_exception, make_cer, run_requests

PROP_ID = "C11"
LEVEL = "exploration"
RULE = (
    "one case = one seeded history (1-4 clients, 3-40 operations over a pool of 3-12 strings: parse with either "
    "parser, resolve, evaluate with yielding peers, in-place edits of previously returned trees at any depth, cache "
    "floods of 200 or 1100 fresh strings, total evictions) executed once under the simulated loop from cold caches; non-trivial iff at "
    "least one string was parsed/resolved/evaluated again after a tree returned for it had been edited or after a "
    "flood (measured in the run); distinct = distinct event-log digests among the non-trivial cases"
)

def _parse_alone(grammar, text):
    """the function under test itself, as the first and only thing a pristine process does"""
    from ahbicht.expressions.ahb_expression_parser import parse_ahb_expression_to_single_requirement_indicator_expressions
    from ahbicht.expressions.condition_expression_parser import parse_condition_expression_to_tree

    parse = parse_condition_expression_to_tree if grammar == "cond" else (
        parse_ahb_expression_to_single_requirement_indicator_expressions
    )
    try:
        return canon_tree(parse(text))
    except SyntaxError:
        return {"exc": "SyntaxError"}
    except (KeyboardInterrupt, SystemExit):
        raise
    except Exception as exc:  # pylint:disable=broad-except
        return describe_exception(exc)


def _keyword_call_offered(grammar):
    """
    whether the parse function can be called with its documented parameter name as keyword at all: decided in a
    pristine process with an expression the positional call accepts (a TypeError then comes from the call shape)
    """
    from ahbicht.expressions.ahb_expression_parser import parse_ahb_expression_to_single_requirement_indicator_expressions
    from ahbicht.expressions.condition_expression_parser import parse_condition_expression_to_tree

    try:
        if grammar == "cond":
            parse_condition_expression_to_tree("[1]")
            parse_condition_expression_to_tree(condition_expression="[2]")
        else:
            parse_ahb_expression_to_single_requirement_indicator_expressions("Muss [1]")
            parse_ahb_expression_to_single_requirement_indicator_expressions(ahb_expression="Muss [2]")
    except TypeError:
        return False
    except BaseException:  # pylint:disable=broad-except
        return True  # something else is wrong: let the history show it
    return True


def reference_parse(scenario, which, text):
    """
    'whatever happened before': the reference is what the same public function returns when nothing happened before -
    the first call of a pristine process (computed before the history starts, see execute). It is a statement about
    purity only: a change of the accepted language or of the tree shape is not a violation of C11.
    """
    return scenario["_parse_references"][f"{which}|{text}"]


# ------------------------------------------------------------------------------------------------------- edits
def apply_edit(tree, path, edit):
    """in-place edit of a tree a caller got back earlier; returns a short description"""
    from lark import Token, Tree

    node = tree
    for index in path:
        subtrees = [c for c in node.children if isinstance(c, Tree)]
        if not subtrees:
            break
        node = subtrees[index % len(subtrees)]
    kind = edit[0]
    children = node.children
    if kind == "append":
        children.append(Token("CONDITION_KEY", "4711"))
    elif kind == "pop":
        if children:
            children.pop()
    elif kind == "clear":
        children.clear()
    elif kind == "reverse":
        children.reverse()
    elif kind == "replace_token":
        if children:
            children[edit[1] % len(children)] = Token("CONDITION_KEY", "4712")
    elif kind == "replace_tree":
        if children:
            children[edit[1] % len(children)] = Tree("condition", [Token("CONDITION_KEY", "4713")])
    elif kind == "rename":
        node.data = "xor_composition" if node.data != "xor_composition" else "or_composition"
    elif kind == "insert":
        children.insert(0, Tree("condition", [Token("CONDITION_KEY", "4714")]))
    elif kind == "token_attr":
        tokens = [c for c in children if isinstance(c, Token)]
        if tokens:
            tokens[0].value = "4715"  # what evaluation reads from a token is its .value attribute
    else:
        raise ValueError(kind)
    return f"{kind}@{path}"


EDITS = [["append"], ["pop"], ["clear"], ["reverse"], ["replace_token", 0], ["replace_token", 1], ["replace_tree", 0],
         ["replace_tree", 1], ["rename"], ["insert"], ["token_attr"], ["token_attr"], ["token_attr"]]


# ---------------------------------------------------------------------------------------------------- operations
async def _evaluate(kind, text):
    from ahbicht.content_evaluation.fc_evaluators import text_to_be_evaluated_by_format_constraint
    from ahbicht.expressions.ahb_expression_evaluation import evaluate_ahb_expression_tree
    from ahbicht.expressions.ahb_expression_parser import parse_ahb_expression_to_single_requirement_indicator_expressions
    from ahbicht.expressions.expression_resolver import parse_expression_including_unresolved_subexpressions
    from ahbicht.expressions.format_constraint_expression_evaluation import format_constraint_evaluation
    from ahbicht.expressions.requirement_constraint_expression_evaluation import requirement_constraint_evaluation

    text_to_be_evaluated_by_format_constraint.set("some text")
    if kind == "rc_eval":
        return await requirement_constraint_evaluation(text)
    if kind == "fc_eval":
        return await format_constraint_evaluation(text)
    if kind == "ahb_unresolved":
        return await evaluate_ahb_expression_tree(parse_ahb_expression_to_single_requirement_indicator_expressions(text))
    if kind == "ahb_resolved":
        return await evaluate_ahb_expression_tree(await parse_expression_including_unresolved_subexpressions(text))
    if kind == "resolve":
        return await parse_expression_including_unresolved_subexpressions(text)
    if kind == "resolve_raw":
        return await parse_expression_including_unresolved_subexpressions(
            text, resolve_packages=False, replace_time_conditions=False
        )
    if kind == "resolve_pkg":
        return await parse_expression_including_unresolved_subexpressions(text, resolve_packages=True)
    if kind in ("keys", "keys_t"):
        from ahbicht.expressions.condition_expression_parser import extract_categorized_keys

        return await extract_categorized_keys(text, resolve_packages=False, replace_time_conditions=kind == "keys_t")
    raise ValueError(kind)


RESOLVING = ("resolve", "resolve_raw", "resolve_pkg")


async def _reference_op(sim, request):
    return await _evaluate(request["ref_kind"], request["ref_text"])


def _reference(scenario, cid, kind, text):
    request = next(r for r in scenario["requests"] if r["rid"] == cid)
    request = {"rid": cid, "cer": request["cer"], "ref_kind": kind, "ref_text": text}
    solo = dict(scenario, profile="zero", decisions={}, decisions_closed=False, requests=[request])
    solo.pop("_with_log", None)
    _, outcomes = run_requests(solo, _reference_op)
    return strip_msg(outcomes[cid])


async def do_op(sim, request):
    import asyncio

    from ahbicht.expressions.ahb_expression_parser import parse_ahb_expression_to_single_requirement_indicator_expressions
    from ahbicht.expressions.condition_expression_parser import parse_condition_expression_to_tree

    state = sim.shared
    pool = sim.scenario["pool"]
    cid = request["rid"]

    def note_reuse(text):
        if text in state["edited"]:
            sim.probe("reuse_after_edit")
            state["nontrivial"] = True
        if state["flooded"]:
            sim.probe("reuse_after_flood")
            if state["flooded"] >= 1024:
                sim.probe("reuse_after_eviction")
            state["nontrivial"] = True

    def violation(clause, detail):
        if state["violation"] is None:
            state["violation"] = (clause, detail)
        sim.event("violation", cid, clause)

    for number, op in enumerate(request["ops"]):
        kind = op[0]
        sim.event("op", cid, number, kind)
        if kind in ("P", "A"):
            entry = pool[op[1] % len(pool)]
            text = entry["text"]
            which = "cond" if kind == "P" else "ahb"
            note_reuse(text)
            if any(char in text for char in EXOTIC_SPACES):
                sim.probe("parse_of_exotic_white_space")
                if state.get("flooded"):
                    sim.probe("parse_of_exotic_white_space_after_flood")
            parse = parse_condition_expression_to_tree if kind == "P" else (
                parse_ahb_expression_to_single_requirement_indicator_expressions
            )
            try:
                if len(op) > 2 and op[2] == "kw":
                    # the same call with the documented parameter name as keyword
                    if not sim.scenario["_parse_references"].get(f"kw|{which}"):
                        continue  # this call shape is not offered (renamed / positional-only): no parse to judge
                    tree = parse(**{"condition_expression" if kind == "P" else "ahb_expression": text})
                else:
                    tree = parse(text)
                got = canon_tree(tree)
                state["handles"].append({"text": text, "tree": tree, "as_returned": got, "edited": False})
            except SyntaxError:
                got = {"exc": "SyntaxError"}
            except (KeyboardInterrupt, SystemExit):
                raise
            except Exception as exc:  # pylint:disable=broad-except
                got = describe_exception(exc)  # neither a tree nor the documented SyntaxError
            expected = reference_parse(sim.scenario, which, text)
            if got != expected:
                violation(
                    f"parse-differs-from-pristine-process:{which}",
                    f"{cid} op {number}: parse({text!r}) returned {dumps(got)[:500]}, as the first call of a pristine "
                    f"process it returns {dumps(expected)[:500]}",
                )
        elif kind in ("R", "E"):
            entry = pool[op[2] % len(pool)]
            text, eval_kind = entry["text"], op[1]
            if eval_kind not in entry["evals"]:
                continue
            note_reuse(text)
            try:
                result = await _evaluate(eval_kind, text)
                outcome = {"ok": canon(result)}
                if eval_kind in ("keys", "keys_t"):
                    state["extracts"].append(result)
                if eval_kind in RESOLVING:  # resolved trees are edited by callers as well
                    state["handles"].append(
                        {"text": text, "tree": result, "as_returned": outcome["ok"], "edited": False}
                    )
            except asyncio.CancelledError:
                raise
            except (KeyboardInterrupt, SystemExit):
                raise
            except BaseException as exc:  # pylint:disable=broad-except
                outcome = describe_exception(exc)
            expected = sim.scenario["_references"][f"{cid}|{eval_kind}|{text}"]
            if outcome != expected:
                violation(
                    f"result-differs-from-pristine-process:{eval_kind}",
                    f"{cid} op {number}: {eval_kind}({text!r}) gave {dumps(outcome)[:500]}, in a pristine process "
                    f"it gives {dumps(expected)[:500]}",
                )
        elif kind == "M":
            if state["handles"]:
                handle = state["handles"][op[1] % len(state["handles"])]
                apply_edit(handle["tree"], op[2], op[3])
                handle["edited"] = True
                state["edited"].add(handle["text"])
                sim.count_fault("F7_caller_edit")
                # what one caller does with its tree must not show in a tree another caller got back earlier
                for other in state["handles"]:
                    if not other["edited"] and canon_tree(other["tree"]) != other["as_returned"]:
                        other["edited"] = True  # report once
                        violation(
                            "returned-tree-changed-by-foreign-edit",
                            f"{cid} op {number}: after an edit of a tree returned for {handle['text']!r}, the tree "
                            f"another caller had been given for {other['text']!r} changed to "
                            f"{dumps(canon_tree(other['tree']))[:400]}",
                        )
        elif kind == "F":
            for _ in range(op[1]):
                # fresh, trivial, well-formed strings over key numbers that are valid everywhere: [a][b], both parsers
                state["flood_counter"] += 1
                first, second = divmod(state["flood_counter"], 60)
                text = f"[{1 + first % 499}][{901 + second}]"
                if len(op) > 2 and op[2] == "ahb":
                    parse_ahb_expression_to_single_requirement_indicator_expressions(f"Muss {text}")
                else:
                    parse_condition_expression_to_tree(text)
            state["flooded"] += op[1]
            sim.count_fault("F6_cache_flood")
            sim.probe("flood_strings", op[1])
        elif kind == "MK":
            # a caller edits a key extract it got back earlier (pops / appends keys of the template)
            if state["extracts"]:
                extract = state["extracts"][op[1] % len(state["extracts"])]
                for name in ("requirement_constraint_keys", "hint_keys", "format_constraint_keys", "time_condition_keys"):
                    keys = getattr(extract, name, None)
                    if isinstance(keys, list):
                        if keys and op[1] % 2:
                            keys.pop()
                        else:
                            keys.append("4711" if name != "time_condition_keys" else "UB1")
                sim.count_fault("F7_caller_edit")
        elif kind == "X":
            # total eviction at an arbitrary point of the history (what a full cache does to the oldest entry, done to
            # all of them): the miss path runs again and the freed trees' addresses are reused
            for cache in env.find_parse_caches():
                cache.cache_clear()
            state["flooded"] += 1024
            sim.count_fault("F6_cache_evict_all")
        elif kind == "S":
            await asyncio.sleep(op[1] * TIME_UNIT)
    return "done"


# --------------------------------------------------------------------------------------------------- generation
EXOTIC_SPACES = ["\xa0", "\u2003", "\u3000", "\u2009", "\x0b", "\x0c", "\r\n"]


def generate(seed, tier="quick"):
    rnd = rng(seed, "c11")
    rc, hints, fcs = key_universe(rnd, rnd.randint(2, 4), rnd.randint(1, 2), rnd.randint(1, 3))
    pool = []
    for _ in range(rnd.randint(3, 12)):
        roll = rnd.random()
        if roll < 0.45:
            ast, kind = gen_valid(rnd, rnd.randint(0, 3), rc, hints, fcs)
            evals = ["rc_eval", "resolve"] + (["fc_eval"] if kind in ("fc", "nfc") else [])
            pool.append({"grammar": "cond", "text": render(ast, rnd, rnd.choice(["plain", "wild"])), "evals": evals})
        elif roll < 0.55:
            ast, _ = gen_valid(rnd, rnd.randint(0, 2), rc, hints, fcs, want=("nfc", "fc"))
            pool.append({"grammar": "cond", "text": render(ast), "evals": ["fc_eval", "rc_eval", "resolve"]})
        else:
            parts = gen_ahb_parts(rnd, rnd.randint(0, 2), rc, hints, fcs, None, max_parts=3)
            pool.append(
                {"grammar": "ahb", "text": render_ahb(parts, rnd, "plain"),
                 "evals": ["ahb_unresolved", "ahb_resolved", "resolve"]}
            )
    for entry in pool:
        entry["evals"] = entry["evals"] + ["resolve_raw", "keys", "keys_t"]
    if rnd.random() < 0.15:
        # key numbers outside the documented ranges: whatever the parser says about them, it says it every time
        odd = rnd.choice(["1000", "0", "2500", "99999"])
        text = rnd.choice([f"[{odd}]", f"[{rnd.choice(rc)}] U [{odd}]", f"Muss [{odd}] O [{rnd.choice(rc)}]"])
        pool.append({"grammar": "ahb" if text[0] == "M" else "cond", "text": text, "evals": ["resolve", "resolve_raw"]})
    # packages: resolved with the clients' own (different) package tables through a yielding resolver
    package_keys = []
    if rnd.random() < 0.35:
        package_keys = [f"{rnd.randint(1, 99)}P" for _ in range(rnd.randint(1, 2))]
        for _ in range(rnd.randint(1, 3)):
            pkey, other = rnd.choice(package_keys), f"[{rnd.choice(rc)}]"
            text = rnd.choice([f"[{pkey}]", f"[{pkey}] U {other}", f"{other} O [{pkey}] U [{rnd.choice(package_keys)}]",
                               f"Muss [{pkey}]", f"Muss {other} Soll [{pkey}] U {other}"])
            pool.append({"grammar": "ahb" if text[0] in "MSK" else "cond", "text": text,
                         "evals": ["resolve_pkg", "resolve_pkg", "resolve_raw", "keys"]})
    # time conditions (resolved only: their replacement trees are built by the resolver, not by the parsers)
    if rnd.random() < 0.4:
        for _ in range(rnd.randint(1, 2)):
            ub = f"[UB{rnd.choice([1, 2, 3])}]"
            other = f"[{rnd.choice(rc)}]"
            text = rnd.choice([ub, f"{ub} U {other}", f"{other} O ({ub} U {other})", f"Muss {ub}", f"Soll {other} U {ub} Kann {ub}"])
            pool.append({"grammar": "ahb" if text[0] in "MSK" else "cond", "text": text,
                         "evals": ["resolve", "resolve_raw", "keys", "keys_t"]})
    # near-duplicates: strings that differ from another pool string only in whitespace or spelling must not share a tree
    for entry in list(pool):
        if rnd.random() < 0.25 and " " in entry["text"]:
            variant = entry["text"]
            kind = rnd.choice(["double", "tab", "case", "symbol", "mark", "indicator", "trailing", "leading"])
            if kind == "double":
                variant = variant.replace(" ", "  ", rnd.randint(1, 3))
            elif kind == "tab":
                variant = variant.replace(" ", "\t", 1)
            elif kind == "case":
                variant = variant.replace(" U ", " u ").replace(" O ", " o ")
            elif kind == "symbol":
                variant = variant.replace(" U ", " ∧ ").replace(" O ", " ∨ ").replace(" X ", " ⊻ ")
            elif kind == "mark":
                variant = variant.replace("Muss ", "M ").replace("Soll ", "S ").replace("Kann ", "K ")
            elif kind == "indicator":  # the same condition text under another indicator
                for old, new in (("Muss ", "Kann "), ("Soll ", "Muss "), ("Kann ", "Soll "), ("M ", "K "), ("X ", "U ")):
                    if variant.startswith(old):
                        variant = new + variant[len(old):]
                        break
            elif kind == "trailing":
                variant = variant + " "
            elif kind == "leading":
                variant = " " + variant
            if variant != entry["text"]:
                pool.append(dict(entry, text=variant))
    big = tier == "thorough" and seed % 4 == 0  # longer histories for a quarter of the thorough runs
    # confusable neighbours with a *different outcome*: a malformed string one normalisation step away from a valid
    # pool string must stay malformed (and must not poison the valid one), in whichever order they are parsed
    import re as _re

    for entry in list(pool):
        if rnd.random() < 0.15:
            text, kind = entry["text"], rnd.choice(["space_in_key", "space_in_ub", "dropped_bracket", "doubled_bracket"])
            if kind == "space_in_key":
                variant = _re.sub(r"\[(\d)(\d+)\]", r"[\1 \2]", text, count=1)
            elif kind == "space_in_ub":
                variant = text.replace("[UB", "[UB ", 1).replace("[UB 1", "[U B1", 1) if "[UB" in text else text
            elif kind == "dropped_bracket":
                variant = text[: text.rfind("]")] + text[text.rfind("]") + 1 :] if "]" in text else text
            else:
                variant = text.replace("[", "[[", 1)
            if variant != text:
                pool.append({"grammar": entry["grammar"], "text": variant, "evals": ["resolve", "resolve_raw", "keys"]})
    n_clients = rnd.choice([2, 3, 4, 6] if big else [1, 1, 2, 2, 3, 4])
    total_ops = rnd.randint(30, 120) if big else rnd.randint(3, 40)
    flood = rnd.random() < (0.04 if tier == "quick" else 0.06)
    cross_rnd = rng(seed, "c11-cross")  # (a stream of its own: the other draws stay what they were)
    requests = []
    for index in range(n_clients):
        ops = []
        for _ in range(max(1, total_ops // n_clients)):
            roll = rnd.random()
            target = rnd.randrange(len(pool))
            if roll < 0.34:
                ops.append(["P" if pool[target]["grammar"] == "cond" else "A", target])
                if cross_rnd.random() < 0.1:
                    # a caller hands the string to the *other* parser (it usually is a syntax error there - and must
                    # stay one whatever the sibling parser has been asked before)
                    ops[-1][0] = "A" if ops[-1][0] == "P" else "P"
                if rnd.random() < 0.15:
                    ops[-1].append("kw")
            elif roll < 0.44:
                ops.append(["R", rnd.choice([e for e in pool[target]["evals"] if e in RESOLVING]), target])
            elif roll < 0.62:
                choices = [e for e in pool[target]["evals"] if e not in RESOLVING]
                if choices:
                    ops.append(["E", rnd.choice(choices), target])
                else:
                    ops.append(["R", rnd.choice([e for e in pool[target]["evals"] if e in RESOLVING]), target])
            elif roll < 0.90:
                path = [rnd.randrange(3) for _ in range(rnd.choice([0, 0, 1, 1, 2, 3]))]
                ops.append(["M", rnd.randrange(64), path, rnd.choice(EDITS)])
            elif roll < 0.93:
                ops.append(["MK", rnd.randrange(64)])
            elif roll < 0.97:
                ops.append(["S", rnd.choice([1, 2, 5])])
            else:
                ops.append(["X"])
        ub_entries = [i for i, e in enumerate(pool) if "[UB" in e["text"] and "resolve" in e["evals"]]
        if ub_entries and rnd.random() < 0.5:
            # resolve an expression with a time condition, edit a token of the tree that came back (tokens carry what
            # evaluation reads in their .value), resolve an expression with a time condition again
            first, second = rnd.choice(ub_entries), rnd.choice(ub_entries)
            where = rnd.randrange(len(ops) + 1)
            ops[where:where] = [["R", "resolve", first], ["M", -1, rnd.choice([[], [0], [1], [0, 0]]), ["token_attr"]],
                                ["R", rnd.choice(["resolve", "keys_t"]) if rnd.random() < 0.8 else "resolve", second]]
        pkg_entries = [i for i, e in enumerate(pool) if "resolve_pkg" in e["evals"]]
        if pkg_entries and n_clients >= 2 and index < 2 and rnd.random() < 0.6:
            # the first two clients resolve the same expression with packages at the same time (a yielding resolver
            # keeps both in flight), then one of them edits what it got back
            ops[0:0] = [["R", "resolve_pkg", pkg_entries[0]]] + (
                [["M", -1, rnd.choice([[], [0]]), rnd.choice(EDITS)], ["R", "resolve_pkg", pkg_entries[0]]]
                if index == 0 else [["S", 5], ["R", "resolve_pkg", pkg_entries[0]]]
            )
        if flood and index == 0:
            sizes = [200, 1100, 1100] + ([5000, 9000] if big and rnd.random() < 0.15 else [])
            ops.insert(rnd.randrange(len(ops) + 1), ["F", rnd.choice(sizes), rnd.choice(["cond", "cond", "ahb"])])
        cid = f"c{index}"
        packages = {k: rnd.choice([f"[{rnd.choice(rc)}]", f"[{rnd.choice(rc)}] U [{rnd.choice(rc)}]",
                                   f"[{rnd.choice(rc)}] O [UB1]"]) for k in package_keys}
        cer = make_cer(cid, rc={k: rnd.choice(STATES) for k in rc}, fc={k: rnd.random() < 0.5 for k in fcs}, hints=hints,
                       packages=packages)
        requests.append({"rid": cid, "start": rnd.choice([0, 0, 1, 3]), "ops": ops, "cer": cer})
    # exotic white space (no-break, em, ideographic, thin space, vertical tab, form feed, CR LF) in place of blanks: a
    # string of its own for both parsers, whatever a normalising hook or cache key makes of it - before and after the
    # cache is saturated. Added after everything else from a stream of its own: the other draws stay what they were.
    exo = rng(seed, "c11-exotic")
    if exo.random() < (0.6 if flood else 0.12):
        candidates = [e for e in pool if " " in e["text"] and e["grammar"] in ("cond", "ahb")]
        if candidates:
            entry = exo.choice(candidates)
            space = exo.choice(EXOTIC_SPACES)
            pool.append({"grammar": entry["grammar"], "text": entry["text"].replace(" ", space, exo.choice([1, 2, 9])),
                         "evals": ["resolve", "resolve_raw", "keys"]})
            target, code = len(pool) - 1, "P" if entry["grammar"] == "cond" else "A"
            for position, request in enumerate(requests):
                if position == 0 or exo.random() < 0.5:
                    ops = request["ops"]
                    ops.insert(exo.randrange(len(ops) + 1), [code, target])
                    if exo.random() < 0.4:
                        ops.insert(exo.randrange(len(ops) + 1), ["R", exo.choice(["resolve", "resolve_raw"]), target])
            if flood:
                requests[0]["ops"].append([code, target])  # (once more after the flood, whenever that was)
    world = {
        "flavour": "sim",
        "rc_keys": rc,
        "fc_keys": fcs,
        "hint_keys": hints,
        "sync_rc": [k for k in rc if rnd.random() < 0.15],
        "sync_fc": [],
        "hints_sync": False,
    }
    profile = rnd.choice([p for p in PROFILES if p not in ("zero", "wide")] * 2 + ["zero", "wide"])
    return {"property": PROP_ID, "seed": seed, "profile": profile, "world": world, "pool": pool, "requests": requests}


def summarise(scenario):
    return {
        "seed": scenario["seed"],
        "profile": scenario["profile"],
        "pool": [e["text"] for e in scenario["pool"]],
        "clients": {r["rid"]: r["ops"] for r in scenario["requests"]},
    }


# ------------------------------------------------------------------------------------------------------ oracle
def execute(scenario):
    pool = scenario["pool"]
    references = {}
    for request in scenario["requests"]:
        for op in request["ops"]:
            if op[0] in ("R", "E"):
                entry = pool[op[2] % len(pool)]
                if op[1] not in entry["evals"]:
                    continue
                key = f"{request['rid']}|{op[1]}|{entry['text']}"
                if key not in references:
                    references[key] = pristine(_reference, scenario, request["rid"], op[1], entry["text"])
    parse_references = {
        f"{entry['grammar']}|{entry['text']}": pristine(_parse_alone, entry["grammar"], entry["text"]) for entry in pool
    }
    crossed = []  # strings that are handed to the other grammar's parser somewhere in the history
    for request in scenario["requests"]:
        for op in request["ops"]:
            if op[0] in ("P", "A"):
                entry, which = pool[op[1] % len(pool)], "cond" if op[0] == "P" else "ahb"
                if which != entry["grammar"] and f"{which}|{entry['text']}" not in parse_references:
                    parse_references[f"{which}|{entry['text']}"] = pristine(_parse_alone, which, entry["text"])
                    crossed.append({"grammar": which, "text": entry["text"]})
    if any(op[0] in ("P", "A") and len(op) > 2 and op[2] == "kw" for r in scenario["requests"] for op in r["ops"]):
        for grammar in ("cond", "ahb"):
            parse_references[f"kw|{grammar}"] = pristine(_keyword_call_offered, grammar)
    scenario = dict(scenario, _references=references, _parse_references=parse_references)
    shared = {"handles": [], "extracts": [], "edited": set(), "flooded": 0, "flood_counter": 0, "violation": None,
              "nontrivial": False}

    async def run_client(sim, request):
        sim.shared = shared
        return await do_op(sim, request)

    try:
        sim, outcomes = run_requests(scenario, run_client, step_cap=2_000_000)
    except LIVENESS_ERRORS as error:
        return liveness_verdict(error, scenario)
    verdict = base_verdict(sim, scenario)
    verdict["observed"] = len(scenario["requests"])
    verdict["completed"] = sum(1 for o in outcomes.values() if "ok" in o)
    verdict["nontrivial"] = shared["nontrivial"]
    for rid, outcome in outcomes.items():
        if "ok" not in outcome:
            fail(verdict, "client-crashed", f"{rid}: {outcome}")
    if shared["violation"]:
        fail(verdict, shared["violation"][0], shared["violation"][1])
    # final sweep: every pool string, both parsers where applicable, after everything that happened
    from ahbicht.expressions.ahb_expression_parser import parse_ahb_expression_to_single_requirement_indicator_expressions
    from ahbicht.expressions.condition_expression_parser import parse_condition_expression_to_tree

    for entry in pool + crossed:
        parse = parse_condition_expression_to_tree if entry["grammar"] == "cond" else (
            parse_ahb_expression_to_single_requirement_indicator_expressions
        )
        try:
            got = canon_tree(parse(entry["text"]))
        except SyntaxError:
            got = {"exc": "SyntaxError"}
        except (KeyboardInterrupt, SystemExit):
            raise
        except Exception as exc:  # pylint:disable=broad-except
            got = describe_exception(exc)
        expected = reference_parse(scenario, entry["grammar"], entry["text"])
        if got != expected:
            fail(
                verdict,
                f"parse-differs-from-pristine-process:{entry['grammar']}",
                f"final sweep: parse({entry['text']!r}) returned {dumps(got)[:500]}, as the first call of a pristine "
                f"process it returns {dumps(expected)[:500]}",
            )
    caches = env.find_parse_caches()
    verdict["probes"]["parse_caches_found"] = len(caches)
    for name, cache in zip(("cond", "ahb"), caches):
        info = cache.cache_info()  # a measuring device only: whatever it lacks is simply not reported
        verdict["probes"][f"cache_hits_{name}"] = getattr(info, "hits", 0) or 0
        verdict["probes"][f"cache_misses_{name}"] = getattr(info, "misses", 0) or 0
    return verdict


# ------------------------------------------------------------------------------------------------------ shrink
def size(scenario):
    total = sum(len(r["ops"]) for r in scenario["requests"]) + 3 * len(scenario["requests"])
    total += sum(op[1] // 100 for r in scenario["requests"] for op in r["ops"] if op[0] == "F")
    total += sum(1 for v in (scenario.get("decisions") or {}).values() if v[0] != "n")
    return total


def shrink(scenario):
    requests = scenario["requests"]
    if len(requests) > 1:
        for index in range(len(requests)):
            candidate = clone(scenario)
            del candidate["requests"][index]
            yield candidate
    for index, request in enumerate(requests):
        ops = request["ops"]
        if len(ops) > 3:  # halves first
            for part in (ops[: len(ops) // 2], ops[len(ops) // 2 :]):
                candidate = clone(scenario)
                candidate["requests"][index]["ops"] = part
                yield candidate
        for drop in reversed(range(len(ops))):
            candidate = clone(scenario)
            del candidate["requests"][index]["ops"][drop]
            yield candidate
        for number, op in enumerate(ops):
            if op[0] == "F" and op[1] > 200:
                candidate = clone(scenario)
                candidate["requests"][index]["ops"][number] = ["F", 1100 if op[1] > 1100 else 200] + op[2:]
                yield candidate
            if op[0] == "M" and op[2]:
                candidate = clone(scenario)
                candidate["requests"][index]["ops"][number] = ["M", op[1], op[2][:-1], op[3]]
                yield candidate
        if request.get("start"):
            candidate = clone(scenario)
            candidate["requests"][index]["start"] = 0
            yield candidate
    yield from shrink_decisions(scenario)
