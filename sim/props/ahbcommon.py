"""shared by the validation properties C13, C15, C16: world/AHB generation, the validate operation, shrinking"""

from sim import env  # noqa: F401
from sim.canon import canon
from sim.gen_ahb import build_ahb, build_node, expressions_of, gen_ahb, shrink_ahb, walk
from sim.gen_expr import gen_ahb_parts, gen_valid, key_universe, render, render_ahb
from sim.props.common import STATES, clone
from sim.runner import shrink_decisions
from sim.world import make_cer, run_requests

MODAL_OR_PREFIX_REQUIRED = ("MUSS", "X", "O", "U")


async def do_validate(sim, request):
    """calls ahbicht's validation API on freshly built maus objects; returns the canonical result list"""
    from ahbicht.validation.validation import validate_deep_anwendungshandbuch, validate_segment_level

    op = request["op"]
    shared = getattr(sim, "objects", None)
    if shared is None:
        shared = sim.objects = {}
    if op["entry"] == "deep":
        deep_ahb = build_ahb(op["ahb"])
        if op.get("same_objects"):  # a caller validating the very same object graph again (with other data)
            deep_ahb = shared.setdefault("deep", deep_ahb)
        results = await validate_deep_anwendungshandbuch(deep_ahb, soll_is_required=op["soll"])
    else:
        node = build_node(op["ahb"]["lines"][0])
        if op.get("same_objects"):
            node = shared.setdefault("level", node)
        results = await validate_segment_level(node, soll_is_required=op["soll"])
    return list(results)


def project(result_list):
    """(discriminator, requirement status or None for value pools) in reported order"""
    out = []
    for item in result_list:
        inner = item["validation_result"]
        is_pool = inner.get("data_element_data_type") == "DataElementDataType.VALUE_POOL"
        out.append([item["discriminator"], None if is_pool else inner["requirement_validation"].split(".")[-1]])
    return out


async def _evaluate_expressions(sim, request):
    """solo, no-yield evaluation of single expressions with the real code: (indicator, fulfilled) per expression"""
    from ahbicht.expressions import InvalidExpressionError
    from ahbicht.expressions.ahb_expression_evaluation import evaluate_ahb_expression_tree
    from ahbicht.expressions.expression_resolver import parse_expression_including_unresolved_subexpressions

    out = {}
    for expression in request["expressions"]:
        try:
            tree = await parse_expression_including_unresolved_subexpressions(expression, resolve_packages=True)
            result = await evaluate_ahb_expression_tree(tree)
        except InvalidExpressionError as error:
            out[expression] = ["INVALID", error.error_message]
            continue
        except (KeyboardInterrupt, SystemExit):
            raise
        except BaseException as error:  # pylint:disable=broad-except
            # the code under test cannot even evaluate this expression on its own at the no-yield schedule
            out[expression] = ["ERROR", type(error).__name__]
            continue
        out[expression] = [
            result.requirement_indicator.name,
            result.requirement_constraint_evaluation_result.requirement_constraints_fulfilled,
        ]
    return out


def evaluate_expressions_alone(scenario, expressions, rid=None):
    """to be called through runner.pristine"""
    source = scenario["requests"][0] if rid is None else next(r for r in scenario["requests"] if r["rid"] == rid)
    request = dict(source, expressions=sorted(set(expressions)))
    request.pop("fault", None)
    request.pop("start", None)
    solo = dict(scenario, profile="zero", decisions={}, decisions_closed=False, requests=[request])
    solo.pop("_with_log", None)
    _, outcomes = run_requests(solo, _evaluate_expressions)
    outcome = outcomes[request["rid"]]
    if "ok" not in outcome:
        raise RuntimeError(f"solo evaluation of node expressions failed: {outcome}")
    return {pair[0]: pair[1] for pair in outcome["ok"]["!dict"]}


# --------------------------------------------------------------------------------------------------- generation
def gen_world(rnd, n_rc=(3, 6), n_hint=(1, 2), n_fc=(1, 3), p_unknown_run=0.25, fc_mode="cer", p_cer_flavour=0.2):
    rc, hints, fcs = key_universe(rnd, rnd.randint(*n_rc), rnd.randint(*n_hint), rnd.randint(*n_fc))
    flavour = "cer" if (fc_mode == "cer" and rnd.random() < p_cer_flavour) else "sim"
    world = {
        "flavour": flavour,
        "fc_mode": fc_mode,
        "rc_keys": rc,
        "fc_keys": fcs,
        "hint_keys": hints,
        "sync_rc": [k for k in rc if rnd.random() < 0.15],
        "sync_fc": [k for k in fcs if rnd.random() < 0.15],
        "hints_sync": rnd.random() < 0.1,
    }
    with_unknown = rnd.random() < p_unknown_run
    assignment = {}
    for key in rc:
        roll = rnd.random()
        assignment[key] = "FULFILLED" if roll < 0.6 else "UNFULFILLED"
    if with_unknown:
        assignment[rnd.choice(rc)] = "UNKNOWN"
    package_kinds = {f"{rnd.randint(1, 99)}P": "rc" for _ in range(rnd.choice([0, 0, 1, 2]))}
    packages = {}
    for pkey in package_kinds:
        ast, _ = gen_valid(rnd, rnd.randint(0, 2), rc, hints, fcs, want=("rc",))
        packages[pkey] = render(ast, rnd, "upper")
    cer = make_cer("r0", rc=assignment, fc={k: rnd.random() < 0.5 for k in fcs}, hints=hints, packages=packages,
                   time_conditions=True)
    world["rc_keys"] = sorted(set(rc) | {"492", "493"}, key=int)
    return world, cer, (rc, hints, fcs, package_kinds)


PARTS_OF = {}
"""expression string -> the strings of its single requirement-indicator parts (filled by gen_expression_pool)"""


def gen_expression_pool(rnd, universe, size=(3, 8), depth=(0, 2), max_parts=3, parts_of=None):
    rc, hints, fcs, package_kinds = universe
    pool = []
    for _ in range(rnd.randint(*size)):
        parts = gen_ahb_parts(rnd, rnd.randint(*depth), rc, hints, fcs, package_kinds, max_parts=max_parts,
                              allow_ub=True)
        style = rnd.choice(["plain", "symbol", "upper"])
        text = render_ahb(parts, rnd, style)
        pool.append(text)
        if parts_of is not None:
            parts_of[text] = [render_ahb([part], None, "plain" if style == "upper" else style) for part in parts]
    return pool


def gen_validation_ahb(rnd, pool, n_roots=(1, 3), depth=2, p_pool=0.3, free_pool=None, free_inputs=None,
                       n_segments=(0, 3), n_des=(0, 3), fanout=(0, 2)):
    def pick_expr(kind):
        if kind == "g" and rnd.random() < 0.45:
            return rnd.choice(["X", "Muss", "Kann", "Soll", "M", "X"])
        if kind == "s" and rnd.random() < 0.25:
            return rnd.choice(["X", "Muss", "Kann", "Soll"])
        if kind == "p" and rnd.random() < 0.3:
            return "X"
        return rnd.choice(pool)

    return gen_ahb(
        rnd,
        pick_expr,
        n_roots=n_roots,
        depth=depth,
        fanout=fanout,
        n_segments=n_segments,
        n_des=n_des,
        p_pool=p_pool,
        free_inputs=free_inputs,
        pick_free_expr=(lambda: rnd.choice(free_pool)) if free_pool else None,
    )


def widen(rnd, ahb, pool):
    """
    adds a node with more than ten children of one kind (11-25 segments below a group, data elements in a segment,
    root groups, sub-groups): anything that orders or indexes children by a *label* instead of their position shows
    up only there. The added nodes carry trivial or pooled expressions.
    """
    counter = [0]

    def label(prefix):
        counter[0] += 1
        return f"{prefix}w{counter[0]}"

    def expression():
        return rnd.choice(["X", "Muss", "Kann", "X", rnd.choice(pool)])

    def segment():
        return {"t": "s", "d": label("S"), "e": expression(), "des": []}

    def element():
        return {"t": "f", "d": label("F"), "e": expression(), "input": rnd.choice([None, "", "w"])}

    def group():
        return {"t": "g", "d": label("G"), "e": expression(), "groups": [], "segments": []}

    count = rnd.randint(11, 25)
    groups = [n for n, _ in walk(ahb) if n["t"] == "g"]
    segments = [n for n, _ in walk(ahb) if n["t"] == "s"]
    kind = rnd.choice(["segments", "elements", "roots", "subgroups"])
    if kind == "segments" and groups:
        rnd.choice(groups)["segments"].extend(segment() for _ in range(count))
    elif kind == "elements" and segments:
        rnd.choice(segments)["des"].extend(element() for _ in range(count))
    elif kind == "subgroups" and groups:
        rnd.choice(groups)["groups"].extend(group() for _ in range(count))
    else:
        ahb["lines"].extend(group() for _ in range(count))
    return ahb


def deepen(rnd, ahb, pool):
    """a chain of 8-40 nested segment groups below one group (the quantifier says any depth)"""
    groups = [n for n, _ in walk(ahb) if n["t"] == "g"]
    if not groups:
        return ahb
    parent = rnd.choice(groups)
    for level in range(rnd.randint(8, 40)):
        expression = rnd.choice(["X", "Muss", "Kann", "X", "Muss", rnd.choice(pool)])
        child = {"t": "g", "d": f"Gd{level}", "e": expression, "groups": [], "segments": []}
        if rnd.random() < 0.3:
            child["segments"].append({"t": "s", "d": f"Sd{level}", "e": rnd.choice(["X", "Muss", rnd.choice(pool)]),
                                      "des": [{"t": "f", "d": f"Fd{level}", "e": "X", "input": rnd.choice([None, "d"])}]})
        parent["groups"].append(child)
        parent = child
    return ahb


def summarise_validation(scenario):
    op = scenario["requests"][0]["op"]
    out = {
        "seed": scenario["seed"],
        "profile": scenario["profile"],
        "flavour": scenario["world"]["flavour"],
        "soll_is_required": op["soll"],
        "entry": op["entry"],
        "requirement_constraints": scenario["requests"][0]["cer"]["requirement_constraints"],
        "ahb": compact(op["ahb"]),
    }
    if len(scenario["requests"]) > 1:
        out["further_validations_in_the_same_process"] = [
            {"rid": r["rid"], "start": r.get("start", 0), "soll_is_required": r["op"]["soll"],
             "requirement_constraints": r["cer"]["requirement_constraints"]}
            for r in scenario["requests"][1:]
        ]
    return out


def second_validation(rnd, first, rid="r1"):
    """
    another caller validating the same AHB with *other* data in the same process - after the first one or at the same
    time (anything remembered across validations, per expression or per key, shows up here)
    """
    request = clone(first)
    request["rid"] = rid
    cer = request["cer"]
    for key, state in list(cer["requirement_constraints"].items()):
        if state != "UNKNOWN" and rnd.random() < 0.6:
            cer["requirement_constraints"][key] = "UNFULFILLED" if state == "FULFILLED" else "FULFILLED"
    for key, entry in cer["format_constraints"].items():
        if rnd.random() < 0.5:
            entry["format_constraint_fulfilled"] = not entry["format_constraint_fulfilled"]
        entry["error_message"] = None if entry["format_constraint_fulfilled"] else f"E{key}@{rid}"
    cer["hints"] = {key: f"H{key}@{rid}" for key in cer["hints"]}
    rc_keys = sorted(cer["requirement_constraints"])
    for pkey in sorted(cer["packages"]):
        if rc_keys and rnd.random() < 0.6 and int(pkey[:-1]) < 880:  # (from 880P: planted invalid packages of C16)
            first, second = rnd.choice(rc_keys), rnd.choice(rc_keys)
            cer["packages"][pkey] = rnd.choice([f"[{first}]", f"[{first}] U [{second}]", f"[{first}] X [{second}]"])
    if rnd.random() < 0.3:
        request["op"]["soll"] = not request["op"]["soll"]
    request["start"] = rnd.choice([1_000_000, 1_000_000, 0, 1, 3])
    if request["start"] >= 1_000_000 and rnd.random() < 0.4:
        request["start"], request["phase"] = 0, 1  # "afterwards" = in a new event loop of the same process
    if request["start"] < 1_000_000 and rnd.random() < 0.35:
        # the concurrent caller is cancelled (as asyncio.wait_for would) or one of its evaluators fails: it is no
        # longer observed itself, the first validation must not notice
        if rnd.random() < 0.6:
            request["fault"] = {"kind": "cancel", "at": rnd.choice([0, 1, 2, 3, 5, 50])}
        else:
            keys = list(cer["requirement_constraints"])
            if keys:
                request["fault"] = {"kind": "raise", "peer": "rc", "key": rnd.choice(keys)}
    return request


def compact(ahb):
    """a readable one-line-per-node rendering for evidence samples"""
    lines = []
    depth_of = {}
    for node, parent in walk(ahb):
        depth = 0 if parent is None else depth_of[id(parent)] + 1
        depth_of[id(node)] = depth
        if node["t"] == "p":
            body = f"pool {[(e['q'], e['e']) for e in node['pool']]} input={node['input']!r}"
        elif node["t"] == "f":
            body = f"{node['e']!r} input={node['input']!r}"
        else:
            body = repr(node["e"])
        lines.append(f"{'  ' * depth}{node['d']}: {body}")
    return lines


# ------------------------------------------------------------------------------------------------------ shrink
def ahb_size(scenario):
    op = scenario["requests"][0]["op"]
    total = sum(1 for _ in walk(op["ahb"])) + 20 * (len(scenario["requests"]) - 1)
    total += sum(len(holder[key]) for holder, key in expressions_of(op["ahb"])) // 8
    total += sum(1 for v in (scenario.get("decisions") or {}).values() if v[0] != "n")
    return total


def shrink_validation(scenario, protected=(), simple=("X", "Kann")):
    """
    protected: discriminators whose expression must not be simplified / whose node must not be dropped alone
    (planted faults of C16 are handled by the property module itself)
    """
    op = scenario["requests"][0]["op"]
    for smaller in shrink_ahb(op["ahb"]):
        if protected:
            kept = {n["d"] for n, _ in walk(smaller)}
            if not set(protected) <= kept:
                continue
        candidate = clone(scenario)
        candidate["requests"][0]["op"]["ahb"] = smaller
        yield candidate
    # simpler expressions
    holders = expressions_of(op["ahb"])
    for index, (holder, key) in enumerate(holders):
        if holder.get("d") in protected or holder.get("planted"):
            continue
        for replacement in simple:
            if holder[key] == replacement:
                break
            candidate = clone(scenario)
            target, target_key = expressions_of(candidate["requests"][0]["op"]["ahb"])[index]
            target[target_key] = replacement
            target.pop("expect_fc", None)  # (what C15 expects of the format constraint the expression no longer has)
            yield candidate
            break
    world = scenario["world"]
    if world.get("flavour") == "cer":
        yield dict(scenario, world=dict(world, flavour="sim"))
    for field in ("sync_rc", "sync_fc"):
        if world.get(field):
            yield dict(scenario, world=dict(world, **{field: []}))
    if world.get("hints_sync"):
        yield dict(scenario, world=dict(world, hints_sync=False))
    yield from shrink_decisions(scenario)
