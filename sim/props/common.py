"""helpers shared by the property modules"""

import copy
import os

from sim.canon import digest
from sim.loop import SimDeadlock, SimStepCap
from sim.runner import pristine
from sim.world import run_requests

STATES = ("FULFILLED", "UNFULFILLED", "UNKNOWN")


def strip_msg(outcome):
    return {k: v for k, v in outcome.items() if k != "msg"}


def is_exception(outcome, name):
    """the outcome is an exception of the named type or of a subclass of it"""
    return outcome.get("exc") == name or name in (outcome.get("bases") or [])


def same_outcome(got, expected):
    """
    equality of outcomes where an *expected* exception is given by type name only ({"exc": name}): a subclass
    satisfies it
    """
    if "exc" in expected and "bases" not in expected:
        return "exc" in got and is_exception(got, expected["exc"])
    return got == expected


def _solo(scenario, rid, op_module, op_name):
    import importlib

    do_op = getattr(importlib.import_module(op_module), op_name)
    request = next(r for r in scenario["requests"] if r["rid"] == rid)
    request = {k: v for k, v in request.items() if k not in ("fault", "start")}
    solo = dict(scenario, profile="zero", decisions={}, decisions_closed=False, requests=[request])
    solo.pop("_with_log", None)
    _, outcomes = run_requests(solo, do_op)
    return strip_msg(outcomes[rid])


def solo_reference(scenario, rid, op_module, op_name="do_op"):
    """
    the same request run alone, in a pristine process (cold caches, fresh injector), with peers that never yield
    """
    return pristine(_solo, scenario, rid, op_module, op_name)


def base_verdict(sim, scenario):
    """the measured part of a verdict (metrics for the evidence file)"""
    verdict = {
        "ok": True,
        "clause": None,
        "detail": None,
        "fingerprint": None,
        "nontrivial": sim.inversions > 0,
        "log_digest": sim.log_digest(),
        "sim_time": sim.sim_time,
        "steps": sim.steps,
        "peer_calls": sim.peer_calls,
        "yielding_calls": sim.yielding_calls,
        "inversions": sim.inversions,
        "faults": dict(sim.fault_counts),
        "probes": dict(sim.probes),
        "order_sig": digest(order_signature(sim.finish_order)),
        "consulted": sim.consulted,
    }
    if scenario.get("_with_log"):
        verdict["log"] = sim.log
    if getattr(sim, "shared_violation", None):
        # something a peer observed itself (it was served to the wrong request, its private context was overwritten)
        fail(verdict, *sim.shared_violation)
    return verdict


def order_signature(finish_order):
    """the completion order as a permutation pattern of start indices (rank compressed)"""
    rank = {seq: i for i, seq in enumerate(sorted(finish_order))}
    return [rank[s] for s in finish_order]


def fail(verdict, clause, detail, fingerprint=None):
    if verdict["ok"]:
        verdict["ok"] = False
        verdict["clause"] = clause
        verdict["detail"] = detail if isinstance(detail, str) else repr(detail)
        verdict["detail"] = verdict["detail"][: int(os.environ.get("VERIF_DETAIL_CHARS", "2000"))]
        verdict["fingerprint"] = fingerprint or clause
    return verdict


def liveness_verdict(error, scenario):
    kind = "deadlock" if isinstance(error, SimDeadlock) else "step-cap"
    return {
        "ok": False,
        "clause": f"liveness:{kind}",
        "detail": str(error),
        "fingerprint": f"liveness:{kind}",
        "nontrivial": True,
        "log_digest": "",
        "sim_time": 0.0,
        "steps": 0,
        "peer_calls": 0,
        "yielding_calls": 0,
        "inversions": 0,
        "faults": {},
        "probes": {},
        "order_sig": "",
        "consulted": None,
    }


LIVENESS_ERRORS = (SimDeadlock, SimStepCap)


# ------------------------------------------------------------------------------------------------ AST shrinking
def shrink_ast(ast):
    """yields strictly smaller ASTs: a child instead of the node, then the same node with a smaller child"""
    if ast[0] in ("k", "p", "ub"):
        if ast[0] == "p" and ast[2] is not None:
            yield ("p", ast[1], None)
        return
    yield ast[1]
    yield ast[2]
    for smaller in shrink_ast(ast[1]):
        yield (ast[0], smaller, ast[2])
    for smaller in shrink_ast(ast[2]):
        yield (ast[0], ast[1], smaller)


def ast_size(ast):
    if ast is None:
        return 0
    if ast[0] in ("k", "p", "ub"):
        return 1
    return 1 + ast_size(ast[1]) + ast_size(ast[2])


def to_tuple(ast):
    """JSON gives lists back; the generators work on tuples"""
    if ast is None:
        return None
    if ast[0] in ("k", "ub"):
        return (ast[0], ast[1])
    if ast[0] == "p":
        return ("p", ast[1], ast[2])
    return (ast[0], to_tuple(ast[1]), to_tuple(ast[2]))


def clone(obj):
    return copy.deepcopy(obj)
