"""
C13 - validation covers the AHB tree once, in order; parents dominate children.

Workload: one validate_deep_anwendungshandbuch / validate_segment_level call on a generated AHB (1-3 root groups,
depth <= 3, value pools and free texts, valid expressions with several modal marks, packages, hints, format
constraints), both values of soll_is_required. Schedule: completion order inside the three nested validation gathers
(evaluator latencies from the PRF). Oracle: a sequential reference model of the documented walk + mapping + combination
table; the (indicator, fulfilled) pair of every node expression is obtained from the real evaluation of that expression
alone in a pristine process with non-yielding peers.
"""

from sim import env  # noqa: F401
from sim.canon import dumps
from sim.gen_ahb import walk
from sim.prf import PROFILES, rng
from sim.props.ahbcommon import (
    MODAL_OR_PREFIX_REQUIRED,
    ahb_size,
    do_validate,
    evaluate_expressions_alone,
    gen_expression_pool,
    gen_validation_ahb,
    gen_world,
    project,
    second_validation,
    shrink_validation,
    deepen,
    summarise_validation,
    widen,
)
from sim.props.common import (
    LIVENESS_ERRORS,
    base_verdict,
    clone,
    fail,
    is_exception,
    liveness_verdict,
    same_outcome,
    strip_msg,
)
from sim.runner import pristine
from sim.world import run_requests

PROP_ID = "C13"
LEVEL = "exploration"
RULE = (
    "one case = one seeded (AHB tree of 1-40 nodes, content evaluation result, soll flag, entry point, peer flavour, "
    "latency profile) validated once under the simulated loop and compared with the sequential reference model; "
    "non-trivial iff at least one pair of evaluator calls that were in flight together completed in an order different "
    "from their start order (measured from the event log); distinct = distinct event-log digests among those"
)

do_op = do_validate


class ModelNotImplemented(Exception):
    """the documented outcome for an undetermined MUSS/prefix-operator node"""


def reference_model(ahb, evaluations, soll_is_required, parts_of=None):
    """returns the expected [(discriminator, status|None)] or raises ModelNotImplemented"""
    out = []
    parts_of = parts_of or {}

    def evaluated(expression):
        parts = parts_of.get(expression)
        if not parts:
            return evaluations[expression]
        # several modal-mark parts: the first part whose requirement constraints are fulfilled decides, otherwise the
        # last one (each part evaluated on its own; the selection is the model's)
        for part in parts:
            if evaluations[part][1] is True:
                return evaluations[part]
        return evaluations[parts[-1]]

    def own_status(expression):
        indicator, fulfilled = evaluated(expression)
        if indicator == "SOLL":
            indicator = "MUSS" if soll_is_required else "KANN"
        if fulfilled is False:
            return "IS_FORBIDDEN"
        if fulfilled is None:
            if indicator in MODAL_OR_PREFIX_REQUIRED:
                raise ModelNotImplemented(expression)
            return "IS_OPTIONAL"
        return "IS_REQUIRED" if indicator in MODAL_OR_PREFIX_REQUIRED else "IS_OPTIONAL"

    def combine(parent, child):
        if parent is None or parent == "IS_REQUIRED":
            return child
        if parent == "IS_OPTIONAL":
            return "IS_OPTIONAL" if child == "IS_REQUIRED" else child
        raise AssertionError("children of forbidden nodes are never visited")

    def visit(node, parent_status):
        if node["t"] in ("g", "s"):
            status = combine(parent_status, own_status(node["e"]))
            out.append([node["d"], status])
            if status == "IS_FORBIDDEN":
                return
            if node["t"] == "g":
                for sub in node.get("groups", []):
                    visit(sub, status)
                for segment in node.get("segments", []):
                    visit(segment, status)
            else:
                for element in node["des"]:
                    visit(element, status)
        elif node["t"] == "f":
            status = combine(parent_status, own_status(node["e"]))
            out.append([node["d"], status + ("_AND_FILLED" if node["input"] else "_AND_EMPTY")])
        else:
            out.append([node["d"], None])  # value pools: reported exactly once and in place; their status is C17's

    for root in ahb["lines"]:
        visit(root, None)
    return out


# --------------------------------------------------------------------------------------------------- generation
def generate(seed, tier="quick"):
    rnd = rng(seed, "c13")
    big = tier == "thorough" and seed % 4 == 0  # deeper bounds for a quarter of the thorough runs
    world, cer, universe = gen_world(rnd)
    parts_of = {}
    pool = gen_expression_pool(rnd, universe, depth=(0, 3) if big else (0, 2), max_parts=4 if big else 3,
                               parts_of=parts_of)
    entry = "deep" if rnd.random() < 0.8 else "level"
    if entry == "deep":
        if big:
            ahb = gen_validation_ahb(rnd, pool, n_roots=(2, 5), depth=rnd.choice([2, 3, 4, 5]), fanout=(0, 3),
                                     n_segments=(0, 4), n_des=(0, 5))
        else:
            ahb = gen_validation_ahb(rnd, pool, depth=rnd.choice([1, 2, 2, 3, 4]))
        if rnd.random() < 0.08:  # discriminators need not be unique: every node is still reported once, in place
            nodes = [n for n, _ in walk(ahb)]
            if len(nodes) >= 2:
                donor, receiver = rnd.sample(nodes, 2)
                receiver["d"] = donor["d"]
    else:
        ahb = gen_validation_ahb(rnd, pool, n_roots=(1, 1), depth=rnd.choice([0, 1, 2]), n_segments=(1, 3))
        if rnd.random() < 0.4:  # a bare segment
            segments = [n for n, _ in walk(ahb) if n["t"] == "s"]
            if segments:
                ahb = {"lines": [rnd.choice(segments)]}
    for node, _ in walk(ahb):
        if node["t"] == "f" and rnd.random() < 0.08:
            node["vt"] = "DATETIME"
            node["input"] = rnd.choice(["2022-12-31T23:00:00Z", "siehe Anhang", "31.12.2022", None, "",
                                        "2023-03-26T22:00:00+00:00"])
    if rnd.random() < 0.06:
        # two data elements of one segment that are equal in every attribute, with something else in between
        segments = [n for n, _ in walk(ahb) if n["t"] == "s" and len(n["des"]) >= 2]
        if segments:
            segment = rnd.choice(segments)
            first = rnd.randrange(len(segment["des"]) - 1)
            segment["des"].insert(rnd.randrange(first + 2, len(segment["des"]) + 1), clone(segment["des"][first]))
    if rnd.random() < 0.01 and entry == "deep":
        ahb = {"lines": []}  # nothing to validate: an empty result, not an error
    if rnd.random() < 0.06 and entry == "deep" and ahb["lines"]:
        ahb = widen(rnd, ahb, pool)
    elif rnd.random() < 0.04 and entry == "deep" and ahb["lines"]:
        ahb = deepen(rnd, ahb, pool)
    profile = rnd.choice([p for p in PROFILES if p != "zero"] * 3 + ["zero"])
    request = {"rid": "r0", "cer": cer, "op": {"entry": entry, "ahb": ahb, "soll": rnd.random() < 0.5}}
    requests = [request]
    if rnd.random() < 0.3:
        requests.append(second_validation(rnd, request))
        if rnd.random() < 0.4:
            for both in requests:
                both["op"]["same_objects"] = True
    used = {n["e"] for n, _ in walk(ahb) if n["t"] != "p"}
    return {"property": PROP_ID, "seed": seed, "profile": profile, "world": world, "requests": requests,
            "parts_of": {e: p for e, p in parts_of.items() if e in used and len(p) > 1}}


summarise = summarise_validation
size = ahb_size


def shrink(scenario):
    requests = scenario["requests"]
    if len(requests) > 1:
        for index in range(len(requests)):
            candidate = clone(scenario)
            del candidate["requests"][index]
            yield candidate
        for index, request in enumerate(requests):
            if request.get("start"):
                candidate = clone(scenario)
                candidate["requests"][index]["start"] = 0
                yield candidate
            if request.get("fault"):
                candidate = clone(scenario)
                del candidate["requests"][index]["fault"]
                yield candidate
        # the same structural shrink applied to all validations at once (they share the AHB)
        for candidate in shrink_validation(dict(scenario, requests=[requests[0]])):
            first = candidate["requests"][0]
            others = []
            for other in requests[1:]:
                other = clone(other)
                other["op"]["ahb"] = clone(first["op"]["ahb"])
                others.append(other)
            yield dict(candidate, requests=[first] + others)
        return
    yield from shrink_validation(scenario)


# ------------------------------------------------------------------------------------------------------ oracle
def _judge(request, outcome, evaluations, verdict, parts_of=None):
    op = request["op"]
    broken = {e: v for e, v in evaluations.items() if v[0] in ("ERROR", "INVALID")}
    if broken:
        # generated node expressions are valid by construction; the model has no input for them
        fail(verdict, "valid-expression-does-not-evaluate-alone",
             f"{request['rid']}: evaluating single node expressions alone with non-yielding peers gave {broken}")
        return
    try:
        expected = {"ok": reference_model(op["ahb"], evaluations, op["soll"], parts_of)}
    except ModelNotImplemented:
        expected = {"exc": "NotImplementedError"}
    if "ok" in outcome:
        got = {"ok": project(outcome["ok"])}
        probes = verdict["probes"]
        probes["reported_nodes"] = probes.get("reported_nodes", 0) + len(got["ok"])
        probes["forbidden_nodes"] = probes.get("forbidden_nodes", 0) + sum(
            1 for _, s in got["ok"] if s and s.startswith("IS_FORBIDDEN")
        )
        probes["pruned_nodes"] = probes.get("pruned_nodes", 0) + sum(1 for _ in walk(op["ahb"])) - len(got["ok"])
    else:
        got = outcome
        if is_exception(outcome, "NotImplementedError"):
            verdict["probes"]["not_implemented_runs"] = verdict["probes"].get("not_implemented_runs", 0) + 1
    if not op["soll"]:
        verdict["probes"]["soll_false_runs"] = verdict["probes"].get("soll_false_runs", 0) + 1
    if same_outcome(got, expected):
        return
    # classify the disagreement so that different defects get different fingerprints
    if "ok" in got and "ok" in expected:
        got_ids, expected_ids = [d for d, _ in got["ok"]], [d for d, _ in expected["ok"]]
        if sorted(got_ids) != sorted(expected_ids):
            clause = "coverage:wrong-set-of-reported-nodes"
        elif got_ids != expected_ids:
            clause = "order:not-document-order"
        else:
            kinds = [n["t"] for n, parent in walk(op["ahb"])]
            position = next((i for i, ((_, s), (_, e)) in enumerate(zip(got["ok"], expected["ok"])) if s != e), 0)
            # the i-th reported node is the i-th *visited* node; find its kind by walking the model's visit order
            visited = [n for n, _ in walk(op["ahb"])]
            by_discriminator = {}
            for node in visited:
                by_discriminator.setdefault(node["d"], node["t"])
            kind = by_discriminator.get(expected["ok"][position][0], kinds[0])
            clause = f"status:{ {'g': 'group', 's': 'segment', 'f': 'freetext', 'p': 'pool'}[kind] }"
            if not op["soll"]:
                clause += ":soll_is_required=False"
        detail = f"reported {dumps(got['ok'])[:700]} but the reference model gives {dumps(expected['ok'])[:700]}"
    else:
        clause = "outcome:exception-mismatch"
        detail = f"outcome {dumps(got)[:600]} but the reference model gives {dumps(expected)[:600]}"
    fail(verdict, clause, f"{request['rid']} soll_is_required={op['soll']} entry={op['entry']}: {detail}")


def execute(scenario):
    evaluations = {}
    observed = [r for r in scenario["requests"] if not r.get("fault")]
    for request in observed:
        expressions = [n["e"] for n, _ in walk(request["op"]["ahb"]) if n["t"] != "p"]
        expressions += [part for e in expressions for part in (scenario.get("parts_of") or {}).get(e, [])]
        evaluations[request["rid"]] = (
            pristine(evaluate_expressions_alone, scenario, expressions, request["rid"]) if expressions else {}
        )
    try:
        sim, outcomes = run_requests(scenario, do_op)
    except LIVENESS_ERRORS as error:
        return liveness_verdict(error, scenario)
    verdict = base_verdict(sim, scenario)
    verdict["observed"] = len(observed)
    verdict["completed"] = sum(1 for r in observed if "ok" in outcomes.get(r["rid"], {}))
    verdict["probes"]["validations"] = len(scenario["requests"])
    for request in observed:
        outcome = strip_msg(outcomes.get(request["rid"], {"missing": True}))
        _judge(request, outcome, evaluations[request["rid"]], verdict, scenario.get("parts_of"))
    return verdict
