"""canonical, JSON-able forms of everything the oracles compare (no ids, no addresses)"""

import collections.abc
import enum
import hashlib
import json

import attrs
from lark import Token, Tree


def canon_tree(node):
    if isinstance(node, Tree):
        return ["T", str(node.data), [canon_tree(c) for c in node.children]]
    if isinstance(node, Token):
        return ["t", str(node.type), str(node.value)]
    if isinstance(node, str):
        return ["s", node]
    return ["?", type(node).__name__]


class Pre:
    """wraps something that already is in canonical form"""

    def __init__(self, value):
        self.value = value


def canon(obj):
    if isinstance(obj, Pre):
        return obj.value
    if obj is None or isinstance(obj, (bool, int, float)):
        return obj
    if isinstance(obj, enum.Enum):
        return f"{type(obj).__name__}.{obj.name}"
    if isinstance(obj, (Tree, Token)):
        return canon_tree(obj)
    if isinstance(obj, str):
        return obj
    if isinstance(obj, BaseException):
        return {"!exc": type(obj).__name__}
    if isinstance(obj, collections.abc.Mapping):
        # a mapping (dict, mapping proxy, ...): two dicts with the same pairs are equal in Python whatever their insertion order
        return {"!dict": sorted(([canon(k), canon(v)] for k, v in obj.items()), key=lambda pair: dumps(pair[0]))}
    if isinstance(obj, (list, tuple)):
        return [canon(x) for x in obj]
    if isinstance(obj, (set, frozenset)):
        return {"!set": sorted((canon(x) for x in obj), key=dumps)}
    if attrs.has(type(obj)):
        return {
            "!cls": type(obj).__name__,
            # fields the class itself excludes from equality (eq=False) are informational
            **{a.name: canon(getattr(obj, a.name)) for a in attrs.fields(type(obj)) if a.eq},
        }
    import dataclasses

    if dataclasses.is_dataclass(obj) and not isinstance(obj, type):
        return {
            "!cls": type(obj).__name__,
            **{f.name: canon(getattr(obj, f.name)) for f in dataclasses.fields(obj) if f.compare},
        }
    if hasattr(obj, "__dict__") and not callable(obj):
        return {"!cls": type(obj).__name__, **{k: canon(v) for k, v in vars(obj).items() if not k.startswith("_")}}
    return {"!obj": type(obj).__name__}


def dumps(obj) -> str:
    return json.dumps(obj, sort_keys=True, ensure_ascii=False, separators=(",", ":"))


def digest(obj) -> str:
    return hashlib.sha256(dumps(obj).encode("utf-8")).hexdigest()[:16]
