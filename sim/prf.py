"""
One integer decides everything.

`prf` is a keyed pseudo random function (blake2b over the repr of its arguments): a decision depends only on
*what* is being decided, never on how many decisions were drawn before. Logging therefore cannot perturb a
run, and removing a request or node while minimising leaves all other decisions unchanged.
`rng(seed, stream)` gives an independent `random.Random` per named stream for scenario generation.
"""

import hashlib
import random

PROFILES = ("zero", "yield", "few", "uniform", "reverse", "straggler", "wide", "mixed")


def prf(*parts) -> int:
    digest = hashlib.blake2b(repr(parts).encode("utf-8"), digest_size=8).digest()
    return int.from_bytes(digest, "big")


def rng(seed, stream) -> random.Random:
    return random.Random(f"{seed}/{stream}")


def decide(seed, profile, rid, kind, key, occ, n_global):
    """
    returns the latency action of one peer call:
      ("n",)      return without yielding
      ("y", k)    yield k times to the loop without time passing (await sleep(0))
      ("s", d)    sleep d virtual seconds
    """
    h = prf(seed, rid, kind, key, occ)
    if profile == "zero":
        return ("n",)
    if profile == "yield":
        k = h % 4
        return ("y", k) if k else ("n",)
    if profile == "few":
        return ("s", 1 + (h >> 8) % 5) if h % 10 == 0 else ("n",)
    if profile == "uniform":
        d = h % 6
        return ("s", d) if d else ("n",)
    if profile == "reverse":
        return ("s", max(1, 5000 - n_global))
    if profile == "straggler":
        if h % 7 == 0:
            return ("s", 10_000)
        d = (h >> 8) % 3
        return ("s", d) if d else ("y", 1)
    if profile == "wide":
        return ("s", 1 + h % 9973)
    if profile == "mixed":
        sel = h % 5
        if sel == 0:
            return ("n",)
        if sel == 1:
            return ("y", 1 + (h >> 8) % 3)
        if sel == 2:
            return ("s", 1 + (h >> 8) % 3)
        return ("s", 1 + (h >> 8) % 997)
    raise ValueError(f"unknown profile {profile}")
