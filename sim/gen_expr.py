"""
Seeded generators for condition expressions and AHB expressions (pure python, independent of ahbicht: a seed means
the same scenario whatever the code under test does).

AST: ("k", key) | ("p", key, repeatability|None) | ("ub", n) | ("and"|"or"|"xor"|"ta", left, right)
Kinds (what an operand can evaluate to, needed to stay inside the *valid* language):
  "rc"       contains a requirement constraint -> never NEUTRAL
  "hint"     a single hint key                 -> NEUTRAL, instance of Hint
  "fc"       a single format constraint key    -> NEUTRAL, instance of UnevaluatedFormatConstraint
  "nhint"    a composition of hints (optionally with attached fcs) -> NEUTRAL composition
  "nfc"      a composition of fcs              -> NEUTRAL composition
"""

PREC = {"or": 1, "xor": 2, "and": 3, "ta": 4}
OPS = {
    "and": ("U", "∧", "u"),
    "or": ("O", "∨", "o"),
    "xor": ("X", "⊻", "x"),
}
FORBIDDEN_FC = {"931", "932", "933", "934", "935"}  # shipped with real date semantics


def key_universe(rnd, n_rc, n_hint, n_fc):
    rc_pool = list(range(1, 500)) + list(range(2000, 2500))
    rc = sorted(rnd.sample(rc_pool[:499], max(0, n_rc - 1)) + rnd.sample(rc_pool, 1 if n_rc else 0))
    rc = [str(k) for k in dict.fromkeys(rc)]
    hints = [str(k) for k in sorted(rnd.sample(range(500, 901), n_hint))]
    fc_pool = [k for k in range(901, 1000) if str(k) not in FORBIDDEN_FC]
    fcs = [str(k) for k in sorted(rnd.sample(fc_pool, n_fc))]
    return rc, hints, fcs


# ----------------------------------------------------------------------------------------------------- rendering
def _prec(ast):
    return PREC.get(ast[0], 5)


def render(ast, rnd=None, style="plain"):
    """
    style "plain": upper case letters, single spaces around operators (safe inside AHB expressions)
    style "wild": any operator spelling, random whitespace, occasional redundant brackets
    style "upper": like wild but without lower case operator letters (safe inside AHB expressions)
    """
    wild = style in ("wild", "upper") and rnd is not None
    spellings = {k: (v if style == "wild" else v[:2]) for k, v in OPS.items()}

    def space():
        if not wild:
            return " "
        return rnd.choice(["", " ", " ", "  "])

    def atom(text):
        if wild and rnd.random() < 0.08:
            return f"({text})"
        return text

    def inner(*pieces):
        # whitespace is ignored between the tokens inside the square brackets, too
        if wild and rnd.random() < 0.06:
            return "[" + rnd.choice(["", " "]) + " ".join(p for p in pieces if p) + rnd.choice([" ", "  "]) + "]"
        return "[" + "".join(p for p in pieces if p) + "]"

    def go(node, parent_prec, right_side=False):
        kind = node[0]
        if kind == "k":
            return atom(inner(str(node[1])))
        if kind == "p":
            return atom(inner(node[1], node[2]))
        if kind == "ub":
            return atom(inner(f"UB{node[1]}"))
        prec = PREC[kind]
        if kind == "ta":
            text = go(node[1], prec) + (rnd.choice(["", " "]) if wild else "") + go(node[2], prec, True)
        else:
            symbol = rnd.choice(spellings[kind]) if wild else (OPS[kind][0] if style != "symbol" else OPS[kind][1])
            text = go(node[1], prec) + space() + symbol + space() + go(node[2], prec, True)
        # brackets: needed when binding weaker than the parent; same-operator chains are bracketed on the right side
        # so that the written grouping is the generated grouping
        if prec < parent_prec or (prec == parent_prec and right_side) or (prec == parent_prec and kind == "ta"):
            return f"({text})"
        if wild and rnd.random() < 0.05:
            return f"({text})"
        return text

    return go(ast, 0)


def keys_of(ast, out=None):
    out = [] if out is None else out
    if ast[0] in ("k", "p"):
        out.append(ast[1])
    elif ast[0] == "ub":
        out.append(f"UB{ast[1]}")
    else:
        keys_of(ast[1], out)
        keys_of(ast[2], out)
    return out


# ------------------------------------------------------------------------------------ valid (evaluatable) expressions
def gen_valid(rnd, depth, rc, hints, fcs, packages=None, want=None, allow_ub=False):
    """
    returns (ast, kind). packages: {key: kind} of package keys that may be used as atoms (kind of their expansion).
    want: restrict the kind of the result to one of a tuple of kinds
    allow_ub: time conditions may be used as atoms (only for expressions that go through the resolver): UB1 / UB2
    stand for the shipped format constraints 932 / 934, UB3 for ([932][492]X[934][493]) - a requirement-constraint
    kind of operand; the world must know the requirement constraints 492 and 493 then.
    """
    packages = packages or {}
    want = want or ("rc", "rc", "rc", "hint", "fc", "nhint", "nfc")
    kind = rnd.choice([k for k in want if _possible(k, rc, hints, fcs)] or ["rc"])
    ast = _gen_kind(rnd, depth, kind, rc, hints, fcs, packages)
    if allow_ub:
        ast = _sprinkle_time_conditions(rnd, ast, set(fcs), set(rc))
    return ast, kind


def _sprinkle_time_conditions(rnd, ast, fcs, rc):
    """replaces some format-constraint atoms by UB1/UB2 and some requirement-constraint atoms by UB3"""
    if ast[0] == "k":
        if ast[1] in fcs and rnd.random() < 0.15:
            return ("ub", rnd.choice([1, 2]))
        if ast[1] in rc and rnd.random() < 0.05:
            return ("ub", 3)
        return ast
    if ast[0] in ("p", "ub"):
        return ast
    return (ast[0], _sprinkle_time_conditions(rnd, ast[1], fcs, rc), _sprinkle_time_conditions(rnd, ast[2], fcs, rc))


def _possible(kind, rc, hints, fcs):
    return {"rc": bool(rc), "hint": bool(hints), "fc": bool(fcs), "nhint": len(hints) >= 1, "nfc": len(fcs) >= 1}[kind]


def _gen_kind(rnd, depth, kind, rc, hints, fcs, packages):
    def sub(k, d=depth - 1):
        if not _possible(k, rc, hints, fcs):
            k = "rc"
        return _gen_kind(rnd, d, k, rc, hints, fcs, packages)

    if kind == "hint":
        return ("k", rnd.choice(hints))
    if kind == "fc":
        return ("k", rnd.choice(fcs))
    if kind == "rc":
        pk = [p for p, k in packages.items() if k == "rc"]
        if depth <= 0 or rnd.random() < 0.25:
            if pk and rnd.random() < 0.35:
                return ("p", rnd.choice(pk), rnd.choice([None, None, "1..1", "0..5", "2..17"]))
            return ("k", rnd.choice(rc))
        roll = rnd.random()
        if roll < 0.30:  # and with anything on the other side
            other = rnd.choice(["rc", "rc", "hint", "fc", "nhint", "nfc"])
            pair = [sub("rc"), sub(other)]
            if rnd.random() < 0.5:
                pair.reverse()
            return ("and", pair[0], pair[1])
        if roll < 0.50:
            return ("or", sub("rc"), sub("rc"))
        if roll < 0.68:
            return ("xor", sub("rc"), sub("rc"))
        if roll < 0.90 and fcs:  # then-also: a format constraint attached to an rc operand
            if rnd.random() < 0.8:
                return ("ta", sub("rc"), ("k", rnd.choice(fcs)))
            return ("ta", ("k", rnd.choice(fcs)), sub("rc"))
        return ("and", sub("rc"), sub("rc"))
    if kind == "nhint":
        if depth <= 0 or len(hints) < 1:
            return ("k", rnd.choice(hints))
        roll = rnd.random()
        if roll < 0.3 and fcs:
            return ("ta", ("k", rnd.choice(hints)), ("k", rnd.choice(fcs)))
        op = rnd.choice(["and", "and", "or", "xor"])
        return (op, sub("nhint"), sub("nhint"))
    if kind == "nfc":
        if depth <= 0:
            return ("k", rnd.choice(fcs))
        op = rnd.choice(["and", "and", "or", "xor"])
        return (op, sub("nfc"), sub("nfc"))
    raise ValueError(kind)


def shape(ast):
    """
    "rc" / "nh" (only hints) / "nf" (only format constraints) for a syntax tree gen_valid could have made, None for
    anything else (shrinking a valid tree can leave an invalid or not-implemented combination behind: `[1] O [901]`,
    `[901][902]`) - the minimiser keeps only candidates that are still valid expressions
    """
    if ast is None:
        return None
    kind = ast[0]
    if kind == "k":
        number = int(ast[1])
        return "nh" if 500 <= number <= 900 else "nf" if 901 <= number <= 999 else "rc"
    if kind == "p":
        return "rc"
    if kind == "ub":
        return "rc" if ast[1] == 3 else "nf"
    left, right = shape(ast[1]), shape(ast[2])
    if left is None or right is None:
        return None
    if kind == "and":
        return "rc" if "rc" in (left, right) else left if left == right else None
    if kind in ("or", "xor"):
        return left if left == right else None
    if kind == "ta":
        leaf = lambda node: node[0] in ("k", "ub")  # noqa: E731
        if left == "rc" and right == "nf" and leaf(ast[2]) or left == "nf" and right == "rc" and leaf(ast[1]):
            return "rc"
        if left == "nh" and right == "nf" and leaf(ast[1]) and leaf(ast[2]):
            return "nh"
    return None


# ------------------------------------------------------------------------------------------ invalid (planted faults)
def gen_invalid(rnd, rc, hints, fcs):
    """a well-formed but invalid condition expression (ast) and the family it belongs to"""
    families = []
    if rc and hints:
        families += ["rc_or_hint", "hint_xor_rc", "nested_rc_or_hint", "neutralcomp_or_rc"]
    if hints and fcs:
        families += ["hint_or_fc", "fc_xor_hint"]
    if rc and fcs:
        families += ["rc_xor_fc", "deep_rc_or_fc"]
    family = rnd.choice(families)
    r = lambda: ("k", rnd.choice(rc))  # noqa: E731
    h = lambda: ("k", rnd.choice(hints))  # noqa: E731
    f = lambda: ("k", rnd.choice(fcs))  # noqa: E731
    if family == "rc_or_hint":
        return ("or", r(), h()), family
    if family == "hint_xor_rc":
        return ("xor", h(), r()), family
    if family == "nested_rc_or_hint":
        return ("and", r(), ("or", r(), h())), family
    if family == "neutralcomp_or_rc":
        return ("or", ("and", h(), h()), ("and", r(), r())), family
    if family == "hint_or_fc":
        return ("or", h(), f()), family
    if family == "fc_xor_hint":
        return ("xor", f(), h()), family
    if family == "rc_xor_fc":
        return ("xor", r(), f()), family
    if family == "deep_rc_or_fc":
        return ("and", ("or", ("and", r(), r()), f()), r()), family
    raise ValueError(family)


# ----------------------------------------------------------------------------------- well-formed (C10, tree level only)
def gen_wellformed(rnd, depth, cond_keys, package_keys, p_pkg=0.4, p_ub=0.15):
    if depth <= 0 or rnd.random() < 0.2:
        roll = rnd.random()
        if roll < p_pkg and package_keys:
            rep = None
            if rnd.random() < 0.4:
                lo = rnd.choice([0, 1, 2, 7, 17, 100])
                rep = f"{lo}..{lo + rnd.choice([0, 1, 3, 10]) or 1}"
                # min > max is not generated: the grammar's own comment documents n..m with m >= n, and the
                # Repeatability model rejects it with a ValueError (DESIGN 9.3) - outside C10's quantifier
            return ("p", rnd.choice(package_keys), rep)
        if roll < p_pkg + p_ub:
            return ("ub", rnd.choice([1, 2, 3]))
        return ("k", rnd.choice(cond_keys))
    op = rnd.choice(["and", "and", "or", "xor", "ta"])
    return (op, gen_wellformed(rnd, depth - 1, cond_keys, package_keys, p_pkg, p_ub),
            gen_wellformed(rnd, depth - 1, cond_keys, package_keys, p_pkg, p_ub))


# --------------------------------------------------------------------------------------------------- AHB expressions
MODAL_SPELLINGS = {
    "MUSS": ("Muss", "M", "Muss", "M", "muss", "MUSS", "m"),
    "SOLL": ("Soll", "S", "Soll", "S", "soll", "SOLL", "s"),
    "KANN": ("Kann", "K", "Kann", "K", "kann", "KANN", "k"),
}


def render_ahb(parts, rnd=None, cond_style="plain"):
    """
    parts: list of (indicator, ast|None); indicator in MUSS/SOLL/KANN/X/O/U. Only the last part may have ast None
    when there is more than one part.
    """
    chunks = []
    for indicator, ast in parts:
        if indicator in MODAL_SPELLINGS:
            # M/Muss, S/Soll, K/Kann in any letter case
            word = rnd.choice(MODAL_SPELLINGS[indicator]) if rnd is not None else MODAL_SPELLINGS[indicator][0]
        else:
            # prefix operators X/O/U in any letter case
            word = indicator.lower() if rnd is not None and rnd.random() < 0.2 else indicator
        if ast is None:
            chunks.append(word)
        else:
            chunks.append(f"{word} {render(ast, rnd, cond_style)}")
    return " ".join(chunks)


def gen_ahb_parts(rnd, depth, rc, hints, fcs, packages=None, max_parts=3, indicators=None, allow_ub=False):
    """a valid AHB expression as parts list"""
    roll = rnd.random()
    if roll < 0.12:
        return [(rnd.choice(indicators or ["MUSS", "SOLL", "KANN", "X", "O", "U"]), None)]
    if roll < 0.30:
        ast, _ = gen_valid(rnd, depth, rc, hints, fcs, packages, allow_ub=allow_ub)
        return [(rnd.choice(["X", "X", "O", "U"]), ast)]
    n_parts = rnd.choice([1, 1, 1, 2, 2, 3][: max(1, min(6, max_parts * 2))])
    n_parts = min(n_parts, max_parts)
    parts = []
    for _ in range(n_parts):
        ast, _ = gen_valid(rnd, depth, rc, hints, fcs, packages, allow_ub=allow_ub)
        parts.append((rnd.choice(indicators or ["MUSS", "SOLL", "KANN"]), ast))
    if rnd.random() < 0.2:
        parts.append((rnd.choice(["MUSS", "SOLL", "KANN"]), None))
    return parts
