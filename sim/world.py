"""
The simulated world around ahbicht: the four user-supplied peers (requirement-constraint evaluator, format-constraint
evaluator, hints provider, package resolver), the evaluatable-data provider and the clients. Everything else - every
line under /repo/src/ahbicht, lark, inject, marshmallow, maus, asyncio tasks/futures/gather/contextvars - is real.

Every asynchronous peer call asks `Sim.pause` for its latency; the answer is a pure function of
(seed, request, kind, key, occurrence) (see prf.py) unless the scenario's `decisions` table overrides it.
Values returned by peers are pure functions of (request data, kind, key[, text]) and are tagged with the request id so
that a mispairing or a leak between concurrently running requests shows up in the result.
"""

import asyncio
from contextvars import ContextVar
from typing import Optional

from sim import env  # noqa: F401  (import order / sys.path)
from sim.canon import canon, digest
from sim.loop import SimDeadlock, SimStepCap, run_in_sim
from sim.prf import decide, prf

import inject  # noqa: E402
from efoli import EdifactFormat, EdifactFormatVersion  # noqa: E402

from ahbicht.content_evaluation.evaluationdatatypes import EvaluatableData, EvaluatableDataProvider  # noqa: E402
from ahbicht.content_evaluation.fc_evaluators import ContentEvaluationResultBasedFcEvaluator, FcEvaluator  # noqa: E402
from ahbicht.content_evaluation.rc_evaluators import ContentEvaluationResultBasedRcEvaluator, RcEvaluator  # noqa: E402
from ahbicht.content_evaluation.token_logic_provider import SingletonTokenLogicProvider, TokenLogicProvider  # noqa: E402
from ahbicht.expressions.hints_provider import ContentEvaluationResultBasedHintsProvider, HintsProvider  # noqa: E402
from ahbicht.expressions.package_expansion import (  # noqa: E402
    ContentEvaluationResultBasedPackageResolver,
    PackageResolver,
)
from ahbicht.models.condition_nodes import ConditionFulfilledValue, EvaluatedFormatConstraint  # noqa: E402
from ahbicht.models.mapping_results import PackageKeyConditionExpressionMapping  # noqa: E402

FMT = EdifactFormat.UTILMD
VER = EdifactFormatVersion.FV2210

FORMATS = [
    (EdifactFormat.UTILMD, EdifactFormatVersion.FV2210),
    (EdifactFormat.MSCONS, EdifactFormatVersion.FV2210),
    (EdifactFormat.UTILMD, EdifactFormatVersion.FV2304),  # same format, other version (a changeover period)
]

REQ: ContextVar[Optional[str]] = ContextVar("sim_request_id", default=None)
CER: ContextVar[Optional[dict]] = ContextVar("sim_content_evaluation_result", default=None)
PEER_SET: ContextVar[int] = ContextVar("sim_peer_set_of_the_request", default=0)


TIME_UNIT = 0.0001
"""
one latency / start / fault-time unit of a scenario in virtual seconds. The properties quantify over completion
*orders*, not durations: a single latency is at most one virtual second (the straggler profile's 10 000 units) and a
whole validation - a chain of sequential stages: requirement constraints, hints, format constraints, level after
level - stays below about twelve virtual seconds, so that a code change which adds a generous real-world timeout (a
minute, say) around user evaluators or around a whole validation is not flagged merely because simulated evaluators
"took two minutes".
"""


def time_unit(scenario):
    """
    the unit of this scenario. Scenarios of single evaluations (C12) keep the millisecond: a single evaluator call may
    take up to ten virtual seconds there (an evaluation is at most three sequential stages), which is what makes a
    per-call time limit that replaces late answers by a value show itself
    """
    return scenario.get("time_unit", TIME_UNIT)


class InjectedFault(RuntimeError):
    """raised by a peer on behalf of the fault injector (sibling failure)"""


def make_cer(rid, rc=None, fc=None, hints=None, packages=None, time_conditions=False):
    """
    builds the (dumped) ContentEvaluationResult that is the evaluatable data of one request.
    rc: {key: "FULFILLED"|"UNFULFILLED"|"UNKNOWN"}; fc: {key: bool}; hints: iterable of keys; packages: {key: expr}
    hint texts and format error messages carry the request id.
    """
    format_constraints = {
        k: {"format_constraint_fulfilled": bool(v), "error_message": None if v else f"E{k}@{rid}"}
        for k, v in (fc or {}).items()
    }
    requirement_constraints = dict(rc or {})
    if time_conditions:
        # what UB1..UB3 are replaced by: the shipped format constraints 932 / 934 (entries for the evaluators that
        # read verdicts from the content evaluation result) and the division constraints 492 / 493
        number = sum(map(ord, rid))
        format_constraints.setdefault("932", {"format_constraint_fulfilled": number % 2 == 0,
                                              "error_message": None if number % 2 == 0 else f"E932@{rid}"})
        format_constraints.setdefault("934", {"format_constraint_fulfilled": number % 3 == 0,
                                              "error_message": None if number % 3 == 0 else f"E934@{rid}"})
        requirement_constraints.setdefault("492", "FULFILLED" if number % 2 else "UNFULFILLED")
        requirement_constraints.setdefault("493", "UNFULFILLED" if number % 2 else "FULFILLED")
    def hint_text(key):
        # hint texts are free text of the AHBs: braces, percent signs, quotes and brackets occur
        decoration = ["", "", " {SG4 IDE+24} zu 100 % 'x'", " (siehe [Kap. 3]) %s {0}"][sum(map(ord, str(key))) % 4]
        if sum(map(ord, str(key) + rid)) % 23 == 0:
            return ""  # an empty text is a text (not "no hint")
        return f"H{key}@{rid}{decoration}"

    return {
        "hints": {k: hint_text(k) for k in (hints or [])},
        "format_constraints": format_constraints,
        "requirement_constraints": requirement_constraints,
        "packages": dict(packages or {}),
    }


class Sim:
    """one simulated run: schedule decisions, event log, counters"""

    def __init__(self, scenario):
        self.scenario = scenario
        self.seed = scenario["seed"]
        self.profile = scenario.get("profile", "zero")
        self.overrides = scenario.get("decisions") or {}
        self.faults = {r["rid"]: r.get("fault") for r in scenario.get("requests", []) if r.get("fault")}
        self.consulted = {}  # decision key -> action (for materialisation)
        self.log = []
        self.loop = None
        self._occ = {}
        self._n = 0
        self._call_seq = 0
        self._inflight = {}
        self.finish_order = []  # call sequence numbers in completion order
        self.inversions = 0
        self.peer_calls = 0
        self.yielding_calls = 0
        self.fault_counts = {}
        self.fc_calls = []  # (rid, key, text)
        self.data_seen = set()  # tokens of the evaluatable-data bodies the requirement evaluators were handed
        self.shared_violation = None  # (clause, detail) of a violation observed by a peer itself
        self.temporary_directories = []
        self.anonymous_results = {}
        self.probes = {}
        self.sim_time = 0.0
        self.steps = 0
        self.closed = False  # set when the main coroutine is done; draining of orphans is not observed

    # ------------------------------------------------------------------ log / counters
    def event(self, what, *details):
        if self.closed:
            return
        step = self.loop.steps if self.loop is not None else 0
        now = self.loop.time() if self.loop is not None else 0.0
        self.log.append([step, now, what, *details])

    def count_fault(self, kind, n=1):
        self.fault_counts[kind] = self.fault_counts.get(kind, 0) + n

    def probe(self, name, n=1):
        self.probes[name] = self.probes.get(name, 0) + n

    def log_digest(self):
        return digest(self.log)

    # ------------------------------------------------------------------ schedule
    def _decision(self, rid, kind, key):
        occ_key = (rid, kind, key)
        occ = self._occ.get(occ_key, 0)
        self._occ[occ_key] = occ + 1
        self._n += 1
        dkey = f"{rid}/{kind}/{key}/{occ}"
        if dkey in self.overrides:
            action = tuple(self.overrides[dkey])
        elif self.scenario.get("decisions_closed"):
            action = ("n",)  # minimised scenarios: anything not listed does not yield
        else:
            action = decide(self.seed, self.profile, rid, kind, key, occ, self._n)
        self.consulted[dkey] = list(action)
        return occ, action

    def check_fault(self, kind, key):
        fault = self.faults.get(REQ.get())
        if fault and fault.get("kind") == "raise" and fault.get("peer") == kind and fault.get("key") == key:
            self.count_fault("F2_sibling_raise")
            raise InjectedFault(f"injected failure of {kind} {key} for {REQ.get()}")

    def check_peer_set(self, index, kind, key):
        """the peers registered for another format / format version must never serve this request"""
        if index != PEER_SET.get():
            self.probe("foreign_peer_set_calls")
            if self.shared_violation is None:
                self.shared_violation = (
                    "isolation:foreign-format-peers",
                    f"{REQ.get()} (format {FORMATS[PEER_SET.get()][0]}) was served by the {kind} peer registered for "
                    f"{FORMATS[index][0]} (key {key})",
                )

    def touch(self, kind, key):
        """a synchronous peer call: cannot yield, is logged"""
        self.peer_calls += 1
        self.event("call", REQ.get(), kind, key)
        self.check_fault(kind, key)

    async def pause(self, kind, key):
        """an asynchronous peer call: realises the latency decision, logs start and finish"""
        rid = REQ.get()
        occ, action = self._decision(rid, kind, key)
        self.peer_calls += 1
        self._call_seq += 1
        seq = self._call_seq
        self._inflight[seq] = True
        self.event("start", rid, kind, key, occ, list(action))
        try:
            if action[0] == "y":
                self.yielding_calls += 1
                for _ in range(action[1]):
                    await asyncio.sleep(0)
            elif action[0] == "s":
                self.yielding_calls += 1
                await asyncio.sleep(action[1] * time_unit(self.scenario))
            self.check_fault(kind, key)
        finally:
            del self._inflight[seq]
            if not self.closed:
                if any(other < seq for other in self._inflight):
                    self.inversions += 1
                self.finish_order.append(seq)
                self.event("finish", rid, kind, key, occ)

    # ------------------------------------------------------------------ peer values (pure functions of request data)
    def rc_value(self, key, evaluatable_data, context=None):
        body = evaluatable_data.body
        token = body.get("id") if hasattr(body, "get") else None  # (any mapping: dict, MappingProxyType, ...)
        if token is not None:
            self.data_seen.add(str(token))
        scope = getattr(context, "scope", None)
        if isinstance(scope, str) and scope.startswith("$['state-"):
            # an evaluation context handed in by the caller decides (the scope is a json path, as documented)
            return ConditionFulfilledValue(scope[len("$['state-"):-2])
        try:
            return ConditionFulfilledValue(evaluatable_data.body["requirement_constraints"][key])
        except KeyError as key_error:
            raise NotImplementedError(f"No result was provided for condition '{key}'.") from key_error

    def fc_value(self, key, text):
        rid = REQ.get()
        self.fc_calls.append([rid, key, text])
        world = self.scenario.get("world", {})
        if world.get("fc_mode", "cer") == "text":
            fulfilled = prf("fc", key, text) % 2 == 0
            if world.get("fc_anonymous"):
                # an evaluator that answers with two shared constant objects and no message of its own
                if fulfilled not in self.anonymous_results:
                    self.anonymous_results[fulfilled] = EvaluatedFormatConstraint(fulfilled, None)
                return self.anonymous_results[fulfilled]
            return EvaluatedFormatConstraint(fulfilled, None if fulfilled else f"E{key}|{text!r}")
        try:
            entry = CER.get()["format_constraints"][key]
        except KeyError as key_error:
            raise NotImplementedError(f"No result was provided for {key}.") from key_error
        if world.get("fc_anonymous"):
            # a user evaluator that answers with two module-level constants (no message of its own)
            fulfilled = entry["format_constraint_fulfilled"]
            if fulfilled not in self.anonymous_results:
                self.anonymous_results[fulfilled] = EvaluatedFormatConstraint(fulfilled, None)
            return self.anonymous_results[fulfilled]
        return EvaluatedFormatConstraint(entry["format_constraint_fulfilled"], entry.get("error_message"))

    @staticmethod
    def hint_value(key):
        text = CER.get()["hints"].get(key)
        if text and "@" not in text:
            # a content evaluation result the library generated itself (validity check): the provider's answer still is
            # this caller's text, so that it can be told apart from another caller's
            text = f"{text} @{(REQ.get() or '').split('+')[0]}"
        return text

    @staticmethod
    def package_value(key):
        return CER.get()["packages"].get(key)


def evaluatable_data_provider():
    """what `inject.params(evaluatable_data=EvaluatableDataProvider)` calls - in the context of the calling task"""
    edifact_format, version = FORMATS[PEER_SET.get()]
    # evaluatable data is a value: every call of the provider hands out a fresh copy (which is freed after use - a
    # library that remembers things by id() of the body, or by the object itself, meets reused addresses here)
    import copy

    return EvaluatableData(body=copy.deepcopy(CER.get()), edifact_format=edifact_format, edifact_format_version=version)


def _flip(value):
    if value == ConditionFulfilledValue.FULFILLED:
        return ConditionFulfilledValue.UNFULFILLED
    return ConditionFulfilledValue.FULFILLED


# ---------------------------------------------------------------------------------------------------------- peers
def _make_rc_evaluator(sim, keys, sync_keys, index=0):
    from ahbicht.content_evaluation.evaluationdatatypes import EvaluationContext

    # every call gets a default context of its own (that is what the base class asks this method for)
    namespace = {"_get_default_context": lambda self: EvaluationContext(scope=None)}
    def make_sync(_key):
        def method(self, evaluatable_data, context):  # pylint:disable=unused-argument
            sim.check_peer_set(index, "rc", _key)
            sim.touch("rc", _key)
            return sim.rc_value(_key, evaluatable_data, context)

        return method

    def make_async(_key):
        async def method(self, evaluatable_data, context):  # pylint:disable=unused-argument
            return await evaluate(_key, evaluatable_data, context)

        return method

    for key in keys:
        namespace[f"evaluate_{key}"] = make_sync(key) if key in sync_keys else make_async(key)

    if True:  # (the body of the asynchronous method, shared by all keys)
        if True:

            async def evaluate(_key, evaluatable_data, context):
                sim.check_peer_set(index, "rc", _key)
                token = None
                if context is not None and not str(context.scope or "").startswith("$['state-"):
                    # like a user evaluator that narrows the scope of *its* default context, awaits, and reads it again
                    sim.scope_tokens = getattr(sim, "scope_tokens", 0) + 1
                    token = f"$['{REQ.get()}/{_key}/#{sim.scope_tokens}']"  # (a json path, as documented)
                    try:
                        context.scope = token
                    except Exception:  # pylint:disable=broad-except
                        token = None  # a context that cannot be written cannot be clobbered either
                await sim.pause("rc", _key)
                value = sim.rc_value(_key, evaluatable_data, context)
                if token is not None:
                    if context.scope != token:
                        sim.probe("default_context_clobbered")
                        if sim.shared_violation is None:
                            sim.shared_violation = (
                                "isolation:evaluation-context",
                                f"{REQ.get()}: the default evaluation context handed to evaluate_{_key} was written by "
                                f"another evaluation while this one was awaiting ({context.scope!r} instead of "
                                f"{token!r})",
                            )
                        value = _flip(value)  # what the evaluator computes from a foreign scope is something else
                    try:
                        context.scope = None
                    except Exception:  # pylint:disable=broad-except
                        pass
                return value

    return type("SimRcEvaluator", (RcEvaluator,), namespace)()


def _make_fc_evaluator(sim, keys, sync_keys, index=0):
    namespace = {}

    def make_sync(_key):
        def method(self, entered_input):
            sim.check_peer_set(index, "fc", _key)
            sim.touch("fc", _key)
            return sim.fc_value(_key, entered_input)

        return method

    def make_async(_key):
        async def method(self, entered_input):
            sim.check_peer_set(index, "fc", _key)
            await sim.pause("fc", _key)
            return sim.fc_value(_key, entered_input)

        return method

    for key in keys:
        namespace[f"evaluate_{key}"] = make_sync(key) if key in sync_keys else make_async(key)
    return type("SimFcEvaluator", (FcEvaluator,), namespace)()


def _make_hints_provider(sim, sync, index=0):
    if sync:

        class SimHintsProvider(HintsProvider):
            def get_hint_text(self, condition_key):  # pylint:disable=invalid-overridden-method
                sim.check_peer_set(index, "hint", condition_key)
                sim.touch("hint", condition_key)
                return sim.hint_value(condition_key)

    else:

        class SimHintsProvider(HintsProvider):
            async def get_hint_text(self, condition_key):
                sim.check_peer_set(index, "hint", condition_key)
                await sim.pause("hint", condition_key)
                return sim.hint_value(condition_key)

    return SimHintsProvider()


def _make_package_resolver(sim, index=0):
    class SimPackageResolver(PackageResolver):
        async def get_condition_expression(self, package_key):
            sim.check_peer_set(index, "pkg", package_key)
            await sim.pause("pkg", package_key)
            return PackageKeyConditionExpressionMapping(
                package_key=package_key, package_expression=sim.package_value(package_key),
                edifact_format=FORMATS[index][0],
            )

    return SimPackageResolver()


def _make_cer_peers(sim):
    """the shipped ContentEvaluationResultBased* classes, with nothing but a latency in front of them"""

    class SimCerRc(ContentEvaluationResultBasedRcEvaluator):
        async def evaluate_single_condition(self, condition_key, evaluatable_data, context=None):
            await sim.pause("rc", condition_key)
            return await super().evaluate_single_condition(condition_key, evaluatable_data, context)

    class SimCerFc(ContentEvaluationResultBasedFcEvaluator):
        async def evaluate_single_format_constraint(self, condition_key):
            await sim.pause("fc", condition_key)
            return await super().evaluate_single_format_constraint(condition_key)

    class SimCerHints(ContentEvaluationResultBasedHintsProvider):
        async def get_hint_text(self, condition_key):
            await sim.pause("hint", condition_key)
            return await super().get_hint_text(condition_key)

    class SimCerPackages(ContentEvaluationResultBasedPackageResolver):
        async def get_condition_expression(self, package_key):
            await sim.pause("pkg", package_key)
            return await super().get_condition_expression(package_key)

    return [SimCerRc(), SimCerFc(), SimCerHints(), SimCerPackages()]


def _make_dict_peers(sim, cer):
    """
    the shipped Dict based ("hardcoded") evaluators, built from one content evaluation result, with nothing but a
    latency in front of them. Their format-constraint results are *shared objects* handed out again and again, and
    carry no message of their own when the content evaluation result has none.
    """
    from ahbicht.content_evaluation.evaluator_factory import create_hardcoded_evaluators
    from ahbicht.content_evaluation.fc_evaluators import DictBasedFcEvaluator
    from ahbicht.content_evaluation.rc_evaluators import DictBasedRcEvaluator
    from ahbicht.expressions.hints_provider import DictBasedHintsProvider
    from ahbicht.expressions.package_expansion import DictBasedPackageResolver
    from ahbicht.models.content_evaluation_result import ContentEvaluationResultSchema

    loaded = ContentEvaluationResultSchema().load(cer)
    create_hardcoded_evaluators(loaded)  # (exercises the factory; the instances below add the latency)

    class SimDictRc(DictBasedRcEvaluator):
        async def evaluate_single_condition(self, condition_key, evaluatable_data, context=None):
            await sim.pause("rc", condition_key)
            return await super().evaluate_single_condition(condition_key, evaluatable_data, context)

    class SimDictFc(DictBasedFcEvaluator):
        async def evaluate_single_format_constraint(self, condition_key):
            await sim.pause("fc", condition_key)
            return await super().evaluate_single_format_constraint(condition_key)

    class SimDictHints(DictBasedHintsProvider):
        async def get_hint_text(self, condition_key):
            await sim.pause("hint", condition_key)
            return await super().get_hint_text(condition_key)

    class SimDictPackages(DictBasedPackageResolver):
        async def get_condition_expression(self, package_key):
            await sim.pause("pkg", package_key)
            return await super().get_condition_expression(package_key)

    if sim.scenario.get("world", {}).get("json_files"):
        # the shipped JsonFile* classes: the same tables, read from files
        import json as _json
        import tempfile
        from pathlib import Path

        from ahbicht.expressions.hints_provider import JsonFileHintsProvider
        from ahbicht.expressions.package_expansion import JsonFilePackageResolver

        directory = Path(tempfile.mkdtemp(prefix="sim-json-"))
        sim.temporary_directories.append(directory)
        (directory / "packages.json").write_text(_json.dumps(dict(loaded.packages or {})), encoding="utf-8")
        (directory / "hints.json").write_text(_json.dumps(dict(loaded.hints)), encoding="utf-8")

        class SimJsonPackages(JsonFilePackageResolver):
            async def get_condition_expression(self, package_key):
                await sim.pause("pkg", package_key)
                return await super().get_condition_expression(package_key)

        class SimJsonHints(JsonFileHintsProvider):
            async def get_hint_text(self, condition_key):
                await sim.pause("hint", condition_key)
                return await super().get_hint_text(condition_key)

        return [
            SimDictRc(loaded.requirement_constraints),
            SimDictFc(loaded.format_constraints),
            SimJsonHints(FMT, VER, directory / "hints.json"),
            SimJsonPackages(FMT, VER, directory / "packages.json"),
        ]
    return [
        SimDictRc(loaded.requirement_constraints),
        SimDictFc(loaded.format_constraints),
        SimDictHints(loaded.hints),
        SimDictPackages(loaded.packages or {}),
    ]


def install_world(sim):
    """builds the peers described by scenario['world'] and configures the (process global) injector"""
    world = sim.scenario.get("world", {})
    peer_sets = []
    if world.get("flavour", "sim") == "cer":
        peer_sets.append(_make_cer_peers(sim))
    elif world.get("flavour") == "dict":
        peer_sets.append(_make_dict_peers(sim, world["dict_cer"]))
    else:
        # one set of peers per (format, format version) the process serves; a request belongs to exactly one of them
        for index in range(int(world.get("n_formats") or (2 if world.get("two_formats") else 1))):
            peer_sets.append(
                [
                    _make_rc_evaluator(sim, world.get("rc_keys", []), set(world.get("sync_rc", [])), index),
                    _make_fc_evaluator(sim, world.get("fc_keys", []), set(world.get("sync_fc", [])), index),
                    _make_hints_provider(sim, bool(world.get("hints_sync", False)), index),
                    _make_package_resolver(sim, index),
                ]
            )
    for index, peers in enumerate(peer_sets):
        for peer in peers:
            peer.edifact_format, peer.edifact_format_version = FORMATS[index]

    def configure(binder):
        binder.bind(TokenLogicProvider, SingletonTokenLogicProvider([p for peers in peer_sets for p in peers]))
        binder.bind_to_provider(EvaluatableDataProvider, evaluatable_data_provider)

    inject.clear_and_configure(configure)
    sim.peer_sets = peer_sets
    return peer_sets[0]


# -------------------------------------------------------------------------------------------------------- running
def describe_exception(exc):
    """type name plus the names of its bases: 'is a NotImplementedError' must also hold for a subclass"""
    bases = [c.__name__ for c in type(exc).__mro__[1:] if c.__name__ not in ("object", "BaseException", "Exception")]
    return {"exc": type(exc).__name__, "bases": bases}


def run_requests(scenario, do_op, step_cap=200_000):
    """
    runs all requests of the scenario concurrently in one fresh SimLoop with one injector.
    do_op(sim, request) is the coroutine function that calls ahbicht's public API for one request.
    returns (sim, outcomes) with outcomes[rid] = {"ok": canonical result} | {"exc": type name, ...} | {"cancelled": True}
    Raises SimDeadlock / SimStepCap (liveness) to the caller.
    """
    sim = Sim(scenario)
    peers = install_world(sim)
    sim.peers = peers
    requests = scenario["requests"]
    outcomes = {}

    async def client(request):
        rid = request["rid"]
        REQ.set(rid)
        CER.set(request.get("cer"))
        PEER_SET.set(int(request.get("peer_set", 0)))
        try:
            if request.get("start"):
                await asyncio.sleep(request["start"] * time_unit(scenario))
            sim.event("begin", rid)
            result = await do_op(sim, request)
            outcome = {"ok": canon(result)}
        except asyncio.CancelledError:
            outcome = {"cancelled": True}
        except (KeyboardInterrupt, SystemExit):
            raise
        except BaseException as exc:  # pylint:disable=broad-except
            outcome = describe_exception(exc)
            outcome["msg"] = str(exc)[:300]
        outcomes[rid] = outcome
        sim.event("done", rid, digest({k: v for k, v in outcome.items() if k != "msg"}))
        # the same worker task goes on with its next message: other evaluatable data in the same context
        for number, follow_up in enumerate(request.get("follow_ups") or [], 1):
            if outcome.get("cancelled"):
                break
            follow_rid = f"{rid}+{number}"
            if follow_up.get("cer") is not None:
                CER.set(follow_up["cer"])
            # (a follow-up without data of its own goes on with whatever the task's context holds: its own data)
            try:
                sim.event("begin", follow_rid)
                follow_outcome = {"ok": canon(await do_op(sim, dict(follow_up, rid=follow_rid)))}
            except asyncio.CancelledError:
                follow_outcome = {"cancelled": True}
            except (KeyboardInterrupt, SystemExit):
                raise
            except BaseException as exc:  # pylint:disable=broad-except
                follow_outcome = describe_exception(exc)
                follow_outcome["msg"] = str(exc)[:300]
            outcomes[follow_rid] = follow_outcome
            sim.event("done", follow_rid, digest({k: v for k, v in follow_outcome.items() if k != "msg"}))

    def make_main(phase_requests):
        async def main():
            loop = asyncio.get_running_loop()
            sim.loop = loop
            sim.closed = False
            tasks = []
            for request in phase_requests:
                task = loop.create_task(client(request), name=request["rid"])
                tasks.append(task)
                fault = request.get("fault")
                if fault and fault.get("kind") == "cancel":

                    def cancel(_task=task):
                        if not _task.done():
                            sim.count_fault("F3_sibling_cancel")
                            _task.cancel()

                    loop.call_at(float(fault["at"]) * time_unit(scenario), cancel)
            await asyncio.gather(*tasks, return_exceptions=True)
            sim.sim_time += loop.time()
            sim.steps += loop.steps
            sim.closed = True

        return main

    # requests of a later "phase" run in a NEW event loop of the same process (a service that calls asyncio.run() per
    # batch of messages): whatever the library keeps between calls must not be bound to the first loop
    phases = sorted({int(r.get("phase", 0)) for r in requests})
    result = None
    try:
        for phase in phases:
            if len(phases) > 1:
                sim.closed, sim.loop = False, None
                sim.event("loop", phase)
            result, _loop = run_in_sim(
                make_main([r for r in requests if int(r.get("phase", 0)) == phase]), step_cap=step_cap
            )
            if isinstance(result, BaseException):
                break
    finally:
        inject.clear()
        import shutil

        for directory in sim.temporary_directories:
            shutil.rmtree(directory, ignore_errors=True)
    if isinstance(result, BaseException):
        raise result
    sim.loop = None
    return sim, outcomes


__all__ = [
    "Sim",
    "SimDeadlock",
    "SimStepCap",
    "REQ",
    "CER",
    "make_cer",
    "run_requests",
    "install_world",
    "InjectedFault",
    "FMT",
    "VER",
]
