"""Deterministic simulation harness for Hochfrequenz/ahbicht (see /verif/DESIGN.md)."""
